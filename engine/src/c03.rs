//! C03: strong-equivalence obligations are refuted exactly by HT-distinguishing pairs.
use crate::c01::{ht_space, program_syms, W0};
use crate::c05::ht_universe;
use crate::dom::*;
use crate::prob::*;
use crate::refsem;
use crate::report::*;
use crate::sem::*;
use crate::tt::*;
use anthem::syntax_tree::asp::mini_gringo as asp;
use anthem::syntax_tree::fol::sigma_0 as fol;
use anthem::verif::{Decomposition, FormulaRepresentation, Problem, StrongEquivalenceTask, Task};
use rayon::prelude::*;
use serde_json::{json, Value};
use std::cell::RefCell;
use std::collections::HashMap;

pub fn rule_alphabet() -> Vec<&'static str> {
    vec![
        "p(X) :- q(X).",
        "p(X) :- not not q(X).",
        "p(X) :- q(X), not r.",
        "{p(X)} :- q(X).",
        "p(X) :- q(X), p(X).",
        "p(X) :- p(X).",
        "{p(X)}.",
        "p(X) :- not not p(X).",
        "p(X) :- q(X), not not p(X).",
        ":- p(X), not q(X).",
        ":- q(X), not p(X).",
        "r :- not r.",
        "r :- not not r.",
        "{r}.",
        "r.",
        "r :- r.",
        "p(1).",
        "p(1..2).",
        "p(1). p(2).",
        "p(X+1) :- q(X).",
        "p(X) :- X = 1..2.",
        "p(X) :- q(X), X > 1.",
        "q(X) :- p(X), not r.",
        "r :- p(X).",
        "r :- not p(1).",
        ":- r.",
        ":- not r.",
        ":- not not r.",
        "p(a).",
        "p(X) :- q(X), X != a.",
        "p(X/2) :- q(X).",
        "{p(1)} :- r.",
        "p(1) :- r, not not p(1).",
        "p(X) :- q(X), q(Y), X = Y.",
        "p(X) :- q(X), not q(X+1).",
        "r :- q(X), not p(X).",
        "r :- q(X), not not p(X).",
        "p(X) :- q(X). q(X) :- p(X).",
        "{p(X)} :- q(X). :- p(X), not q(X).",
        "r :- p(X), q(X).",
    ]
}

pub struct TaskCfg {
    pub rep: FormulaRepresentation,
    pub dec: Decomposition,
    pub simplify: bool,
    pub eqb: bool,
}

pub fn cfgs() -> Vec<(String, TaskCfg)> {
    let mut v = vec![];
    for (rn, rep) in [("tau-star", FormulaRepresentation::TauStar), ("mu", FormulaRepresentation::Mu)] {
        for (dn, dec) in [("independent", Decomposition::Independent), ("sequential", Decomposition::Sequential)] {
            for simplify in [true, false] {
                for eqb in [true, false] {
                    v.push((
                        format!("{rn},{dn},simplify={simplify},eq-break={eqb}"),
                        TaskCfg { rep, dec, simplify, eqb },
                    ));
                }
            }
        }
    }
    v
}

pub fn decompose(left: &asp::Program, right: &asp::Program, c: &TaskCfg, dir: fol::Direction) -> Vec<Problem> {
    let t = StrongEquivalenceTask {
        left: left.clone(),
        right: right.clone(),
        decomposition: c.dec,
        direction: dir,
        formula_representation: c.rep,
        simplify: c.simplify,
        break_equivalences: c.eqb,
    };
    match t.decompose() {
        Ok(w) => w.data,
        Err(_) => vec![],
    }
}

pub struct PairCtx {
    pub u: Universe,
    pub u2: Universe,
    pub syms: Vec<String>,
}

/// `numeric`: integer-only active set {0,1,2} (arithmetic-heavy pairs, marked by a leading
/// `%numeric` comment in the left program's text) instead of the default mix of integers and a symbol
pub fn pair_ctx(left: &asp::Program, right: &asp::Program, limit: usize) -> PairCtx {
    pair_ctx_with(left, right, limit, false)
}
pub fn pair_ctx_with(left: &asp::Program, right: &asp::Program, limit: usize, numeric: bool) -> PairCtx {
    let cands = if numeric { vec![vec![Val::Int(0), Val::Int(1), Val::Int(2)], vec![Val::Int(1), Val::Int(2)]] } else { vec![] };
    pair_ctx_cands(left, right, limit, cands)
}
/// the active set named by a leading marker comment of the left program's text: `%numeric` (integers only),
/// `%extremes` (#inf, an integer, #sup - the values at which strict and non-strict comparisons with the
/// extremes of the order differ), or the default mix
pub fn pair_ctx_marked(left: &asp::Program, right: &asp::Program, limit: usize, text: &str) -> PairCtx {
    if text.starts_with("%extremes") {
        pair_ctx_cands(left, right, limit, vec![vec![Val::Inf, Val::Int(1), Val::Sup], vec![Val::Inf, Val::Sup]])
    } else {
        pair_ctx_with(left, right, limit, text.starts_with("%numeric"))
    }
}
fn pair_ctx_cands(left: &asp::Program, right: &asp::Program, limit: usize, cands: Vec<Vec<Val>>) -> PairCtx {
    let mut preds: Vec<(String, usize)> = vec![];
    for p in left.predicates().into_iter().chain(right.predicates()) {
        let k = (p.symbol, p.arity);
        if !preds.contains(&k) {
            preds.push(k);
        }
    }
    let mut syms = program_syms(left);
    for s in program_syms(right) {
        if !syms.contains(&s) {
            syms.push(s);
        }
    }
    syms.sort();
    let mut active = choose_active(&preds, limit, &syms, false);
    for c in cands {
        let n: usize = preds.iter().map(|(_, a)| c.len().pow(*a as u32)).sum();
        if n <= limit + 2 {
            active = c;
            break;
        }
    }
    for v in &active {
        if let Val::Sym(x) = v {
            if !syms.contains(x) {
                syms.push(x.clone());
            }
        }
    }
    let u = Universe::new(&preds, &active);
    let u2 = ht_universe(&u);
    PairCtx { u, u2, syms }
}

/// expected refutation tables (forward, backward) from the reference semantics at window w
pub fn expected(cx: &PairCtx, left: &asp::Program, right: &asp::Program, w: i128) -> (Table, Table, i128) {
    let hs = ht_space(cx.u.len());
    let slice = slice_for(w, &cx.syms);
    let mut rc = refsem::Ctx::new();
    let pl = refsem::program_sem(left, &slice.general(), &cx.u, &mut rc);
    let pr = refsem::program_sem(right, &slice.general(), &cx.u, &mut rc);
    let sl = hs.sat(&pl);
    let sr = hs.sat(&pr);
    // forward: (H,T) with H subset T satisfying left but not right
    let mut fwd = sl.clone();
    and_into(&mut fwd, &hs.sp.not(&sr));
    and_into(&mut fwd, &hs.valid);
    let mut bwd = sr.clone();
    and_into(&mut bwd, &hs.sp.not(&sl));
    and_into(&mut bwd, &hs.valid);
    (fwd, bwd, rc.maxabs)
}

pub fn observed(cx: &PairCtx, problems: &[Problem], w: i128, b: i128) -> (Table, Table) {
    let hs = ht_space(cx.u.len());
    let slice = slice_for(w, &cx.syms);
    let env = Env {
        u: &cx.u2,
        sp: &hs.sp,
        outer: slice.clone(),
        inner: slice.widened(std::cmp::max(w, b + 2)),
        consts: HashMap::new(),
        cache: RefCell::new(HashMap::new()),
        sym_override: renamed_symbols(problems),
    };
    let mut fwd = hs.sp.zero();
    let mut bwd = hs.sp.zero();
    for p in problems {
        let t = env.refuted(p);
        if p.name.starts_with("forward") {
            or_into(&mut fwd, &t);
        } else {
            or_into(&mut bwd, &t);
        }
    }
    (fwd, bwd)
}

fn describe_j(cx: &PairCtx, idx: u64) -> Value {
    json!({"true_atoms": cx.u2.set_names(idx)})
}

pub fn check_pair(run: Option<&Run>, lt: &str, rt: &str, limit: usize) -> Vec<(String, Value)> {
    let mut out = vec![];
    let (Ok(left), Ok(right)) = (lt.parse::<asp::Program>(), rt.parse::<asp::Program>()) else {
        return out;
    };
    let cx = pair_ctx_marked(&left, &right, limit, lt);
    let hs = ht_space(cx.u.len());
    let ws = [W0, W0 + 3];
    let exp: Vec<(Table, Table, i128)> = ws.iter().map(|w| expected(&cx, &left, &right, *w)).collect();
    if let Some(run) = run {
        for t in [&exp[0].0, &exp[0].1] {
            if hs.sp.count(t) != 0 {
                run.observe(hash_of(t));
            }
        }
    }
    for (cname, cfg) in cfgs() {
        let problems = decompose(&left, &right, &cfg, fol::Direction::Universal);
        if let Some(run) = run {
            run.state();
            run.trans(hs.sp.bits * problems.len() as u64 * 2);
        }
        // structural: one conjecture per problem, directions consistent with the flag
        for p in &problems {
            if n_conjectures(p) != 1 {
                out.push((format!("conjecture_count|{cname}"), json!({"problem": p.name, "conjectures": n_conjectures(p)})));
            }
        }
        let fonly = decompose(&left, &right, &cfg, fol::Direction::Forward);
        let bonly = decompose(&left, &right, &cfg, fol::Direction::Backward);
        let f_univ: Vec<&Problem> = problems.iter().filter(|p| p.name.starts_with("forward")).collect();
        let b_univ: Vec<&Problem> = problems.iter().filter(|p| p.name.starts_with("backward")).collect();
        if fonly.iter().collect::<Vec<_>>() != f_univ || bonly.iter().collect::<Vec<_>>() != b_univ {
            out.push((format!("direction_subset|{cname}"), json!({"kind": "--direction forward/backward does not select the forward/backward problems of the universal task"})));
        }
        let mut verdicts: Vec<Option<(String, Value)>> = vec![];
        for (wi, w) in ws.iter().enumerate() {
            let (of, ob) = observed(&cx, &problems, *w, exp[wi].2);
            let df = xor(&of, &exp[wi].0);
            let db = xor(&ob, &exp[wi].1);
            let v = if let Some(idx) = hs.sp.first_set(&df) {
                Some(("forward".to_string(), json!({"interpretation": describe_j(&cx, idx), "refutes_some_forward_problem": hs.sp.get(&of, idx), "ht_pair_satisfies_left_not_right": hs.sp.get(&exp[wi].0, idx), "window": w})))
            } else if let Some(idx) = hs.sp.first_set(&db) {
                Some(("backward".to_string(), json!({"interpretation": describe_j(&cx, idx), "refutes_some_backward_problem": hs.sp.get(&ob, idx), "ht_pair_satisfies_right_not_left": hs.sp.get(&exp[wi].1, idx), "window": w})))
            } else {
                None
            };
            verdicts.push(v);
        }
        match (&verdicts[0], &verdicts[1]) {
            (Some((d, v)), Some(_)) => out.push((format!("refutation_mismatch|{d}|{cname}"), v.clone())),
            (None, None) => {}
            (a, b) => {
                if let Some(run) = run {
                    run.window_unstable.fetch_add(1, std::sync::atomic::Ordering::Relaxed);
                    run.sample_force(json!({"window_unstable": [lt, rt], "cfg": cname, "detail": format!("{:?}", a.clone().or(b.clone()))}));
                }
            }
        }
    }
    out
}

/// grammar-generated rules: every head kind x bodies of one or two literals/comparisons
pub fn gen_rules() -> Vec<String> {
    let heads = ["p(X)", "{p(X)}", "r", "{r}", "", "p(X+1)", "q(X)"];
    let lits = ["q(X)", "not q(X)", "not not q(X)", "p(X)", "not p(X)", "r", "not r", "not not r", "X > 1", "X != a", "s(X,Y)", "not s(X,X)"];
    let mut v = vec![];
    for h in heads {
        for (i, a) in lits.iter().enumerate() {
            v.push(format!("{h} :- {a}."));
            for b in lits.iter().skip(i + 1) {
                v.push(format!("{h} :- {a}, {b}."));
            }
        }
    }
    v
}

/// all pairs of rules with several arithmetic body/head terms that share variables (nested
/// existential blocks in the translation: the shapes on which quantifier-scope rewrites
/// operate), each under the default and under the integer-only active set (`%numeric` marker)
pub fn arith_pairs() -> Vec<(String, String)> {
    let mut out = vec![];
    let arith = [
        "r :- q(W), p(X+1), q(Y+W).", "r :- q(W), p(X+1), q(X+W).", "r :- p(X+1), q(Y+1).", "r :- p(X+1), q(X+1).", "p(X+Y) :- q(X), q(Y).",
        "p(X+Y) :- q(X), q(Y), X < Y.", "r :- p(X+Y), q(X-Y).", "r :- p(X*2), q(X+Y), q(Y).", "r :- p(X+1), not q(Y+X), q(Y).", "p(X+1) :- q(X+1), q(Y+1), X != Y.",
    ];
    for x in arith {
        for y in arith {
            out.push((x.to_string(), y.to_string()));
            out.push((format!("%numeric\n{x}"), y.to_string()));
        }
    }
    // comparisons with the extremes of the order, strict and non-strict, under the default active set and
    // under {#inf, 1, #sup} (`%extremes` marker)
    let ext = [
        "p(X) :- q(X).", "p(X) :- q(X), X > #inf.", "p(X) :- q(X), X < #sup.", "p(X) :- q(X), #inf < X.", "p(X) :- q(X), X >= #inf.",
        "p(X) :- q(X), #sup >= X.", "p(X) :- q(X), X != #sup.",
    ];
    for x in ext {
        for y in ext {
            out.push((x.to_string(), y.to_string()));
            out.push((format!("%extremes\n{x}"), y.to_string()));
        }
    }
    out
}

pub fn pairs(quick: bool) -> Vec<(String, String)> {
    let a = rule_alphabet();
    let mut out = vec![];
    let g = gen_rules();
    for (i, x) in g.iter().enumerate() {
        for (j, y) in g.iter().enumerate() {
            // quick: a stride that keeps every rule on both sides
            if (i * 7 + j) % (if quick { 97 } else { 13 }) != 0 {
                continue;
            }
            out.push((x.clone(), y.clone()));
        }
        // every rule against itself with a reordered / doubled body and against its neighbours
        out.push((x.clone(), x.clone()));
    }
    for x in &a {
        for y in &a {
            out.push((x.to_string(), y.to_string()));
        }
    }
    // predicate names that differ by a leading h / t only (the prefixes of the here-/there-copies)
    for (i, x) in a.iter().enumerate() {
        for (j, y) in a.iter().enumerate() {
            let both = format!("{x} {y}");
            if !(both.contains("p(") && both.contains("q(")) || (quick && (i + j) % 2 != 0) {
                continue;
            }
            for ren in [[("p", "hq")], [("p", "tq")]] {
                out.push((crate::tasks::rename_words(x, &ren), crate::tasks::rename_words(y, &ren)));
            }
        }
    }
    out.extend(arith_pairs());
    if !quick {
        // 2-rule programs against single rules and against permuted / extended variants
        let n = a.len();
        for i in 0..n {
            for j in (i + 1)..n {
                let two = format!("{} {}", a[i], a[j]);
                out.push((two.clone(), format!("{} {}", a[j], a[i])));
                out.push((two.clone(), a[i].to_string()));
                out.push((a[j].to_string(), two.clone()));
                if (i + j) % 4 == 0 {
                    for k in 0..n {
                        if (i + j + k) % 5 == 0 {
                            out.push((two.clone(), format!("{} {}", a[i], a[k])));
                        }
                    }
                }
            }
        }
    }
    out
}

pub fn run(run: &Run) {
    let quick = run.quick();
    let all = pairs(quick);
    run.set_extra("pairs_generated", json!(all.len()));
    run.set_extra("configurations_per_pair", json!(cfgs().len()));
    run.set_rule("every ordered pair of programs over a 40-program alphabet (thorough: + 2-rule programs) and a stride of the pairs of 546 grammar-generated rules (7 head kinds x bodies of 1-2 literals over q/1, p/1, r/0, s/2 and comparisons), plus the alphabet pairs that mention both p and q with p renamed to hq and to tq (names differing by a copy prefix only), plus all pairs of 10 rules with several arithmetic terms sharing variables (each under the default active set and under the integer-only active set {0,1,2}) x {tau-star, mu} x {independent, sequential} x simplify x eq-break, --direction universal (and forward/backward checked to select the same problems) x ALL classical interpretations of the h-/t-copies (incl. H not subset-of T): set refuting some forward (backward) problem vs set of pairs H subset-of T that satisfy the left (right) program but not the other under the reference semantics; non-trivial = distinct non-empty expected refutation table");
    run.assume("finite slice as in C01; h-/t-copies identified by the documented h/t prefixing");
    let limit = 6;
    let seed = run.seed as usize;
    let total = all.len();
    let idx: Vec<usize> = (0..total).collect();
    idx.par_iter().for_each(|&i0| {
        let i = (i0 + seed) % total;
        let (l, r) = &all[i];
        let _w = run.watch("pair", "pair", &format!("{l} || {r}"));
        let res = std::panic::catch_unwind(std::panic::AssertUnwindSafe(|| check_pair(Some(run), l, r, limit)));
        match res {
            Err(_) => run.violation(format!("panic|{l}|{r}"), json!({"kind": "panic", "left": l, "right": r})),
            Ok(v) => {
                for (k, d) in v {
                    run.violation(format!("{k}|{l}|{r}"), json!({"left": l, "right": r, "key": k, "detail": d}));
                }
            }
        }
        if i < 2 || i + 1 == total {
            run.sample(json!({"left": l, "right": r}));
        }
    });
}

pub fn replay(v: &Value) -> i32 {
    let r = &v["replay"];
    let (Some(l), Some(rt)) = (r["left"].as_str(), r["right"].as_str()) else { return 2 };
    let a = check_pair(None, l, rt, 6);
    let b = check_pair(None, l, rt, 6);
    if format!("{a:?}") != format!("{b:?}") {
        println!("replay: NON-DETERMINISTIC");
        return 2;
    }
    println!("replay left=`{l}` right=`{rt}`: {}", serde_json::to_string(&a).unwrap());
    if a.is_empty() {
        0
    } else {
        1
    }
}
