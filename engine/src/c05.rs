//! C05: gamma reduces HT satisfaction to classical satisfaction.
use crate::c01::ht_space;
use crate::c07::{assignments, generic_sem, Sem, GW};
use crate::dom::*;
use crate::enum_fol::*;
use crate::ground::G;
use crate::report::*;
use crate::sem::*;
use crate::tt::*;
use anthem::syntax_tree::fol::sigma_0 as fol;
use anthem::translating::classical_reduction::gamma::Gamma as _;
use rayon::prelude::*;
use serde_json::{json, Value};

/// universe of the h-/t-copies laid out like the HT index: h-atoms first, then t-atoms
pub fn ht_universe(u: &Universe) -> Universe {
    let mut v = Universe::default();
    for (p, a) in &u.atoms {
        v.add_atom(&format!("h{p}"), a.clone());
    }
    for (p, a) in &u.atoms {
        v.add_atom(&format!("t{p}"), a.clone());
    }
    v
}

pub fn inputs(quick: bool) -> Vec<String> {
    let mut v = family_g();
    v.extend(family_f());
    let ab = family_ab();
    if quick {
        for (i, f) in ab.into_iter().enumerate() {
            if i < 2300 || i % 4 == 0 {
                v.push(f);
            }
        }
        for (i, f) in family_e().into_iter().enumerate() {
            if i % 3 == 0 {
                v.push(f);
            }
        }
    } else {
        v.extend(ab);
        v.extend(family_e());
        v.extend(family_c(true));
        v.extend(family_d(true));
        v.extend(family_k());
    }
    // nested implications / negations (the connectives gamma duplicates)
    let at = ["p", "q(X)", "q(a)", "X = a", "#false"];
    for a in at {
        for b in at {
            for c in at {
                v.push(format!("(({a}) -> ({b})) -> ({c})"));
                v.push(format!("({a}) -> (({b}) -> ({c}))"));
                v.push(format!("not (({a}) -> ({b})) or ({c})"));
                v.push(format!("(({a}) <-> ({b})) <- ({c})"));
                v.push(format!("forall X ((({a}) <- ({b})) <-> not ({c}))"));
                v.push(format!("not not (({a}) -> not ({b})) and exists X (not ({c}))"));
                v.push(format!("exists X (not (forall Y (({a}) -> ({b}))) -> ({c}))"));
            }
        }
    }
    v
}

fn ground_in(u: &Universe, syms: &[String], f: &fol::Formula, fv: &[fol::Variable], a: &[Val], w: i128) -> P {
    let outer = slice_for(w, syms);
    let inner = outer.widened(w + 6);
    let mut g = G::new(u, outer, inner);
    for (v, x) in fv.iter().zip(a.iter()) {
        g.bind(&v.name, v.sort, x.clone());
    }
    g.ground(f)
}

/// returns per window the first differing (assignment, description)
pub fn check(sem: &Sem, u2: &Universe, f: &fol::Formula, interps: &mut u64, nontrivial: &mut Vec<u64>) -> [Option<Value>; 2] {
    let gf = f.clone().gamma();
    let fv: Vec<fol::Variable> = f.free_variables().into_iter().collect();
    let hs = ht_space(sem.u.len());
    let mut out: [Option<Value>; 2] = [None, None];
    for (wi, w) in [GW, GW + 3].into_iter().enumerate() {
        for a in assignments(&fv, &sem.active) {
            let p = ground_in(&sem.u, &sem.syms, f, &fv, &a, w);
            let pg = ground_in(u2, &sem.syms, &gf, &fv, &a, w);
            let t1 = hs.sat(&p);
            let mut t2 = hs.sp.cl(&pg);
            and_into(&mut t2, &hs.valid);
            *interps += hs.nvalid();
            if wi == 0 {
                let c = hs.sp.count(&t1);
                if c != 0 && c != hs.nvalid() {
                    nontrivial.push(hash_of(&t1));
                }
            }
            let d = xor(&t1, &t2);
            if let Some(idx) = hs.sp.first_set(&d) {
                let asg: Vec<(String, String)> = fv
                    .iter()
                    .zip(a.iter())
                    .map(|(v, x)| (v.to_string(), x.to_string()))
                    .collect();
                out[wi] = Some(json!({"assignment": asg, "interpretation": describe_ht(&hs, &sem.u, idx),
                    "ht_satisfied": hs.sp.get(&t1, idx), "gamma_classically_satisfied": hs.sp.get(&t2, idx),
                    "gamma": gf.to_string(), "window": w}));
                break;
            }
        }
    }
    out
}

pub fn run(run: &Run) {
    let quick = run.quick();
    let all = inputs(quick);
    let total = all.len();
    run.set_extra("inputs_generated", json!(total));
    run.set_rule("every formula of families A,B,E,F,G (+C,D and K thorough; K = complete connective depth 2 over five atoms and six connectives, complete depth 3 over {p, q(X)} with not/->/<-) and nested implication/negation shapes x all free-variable assignments x all pairs H subset-of T over U = {p, q(1), q(2), q(a)}: HT satisfaction of F vs classical satisfaction of gamma(F) under hp:=H, tp:=T; non-trivial = distinct HT table neither empty nor full");
    run.assume("finite slice as in C07; gamma preserves binders, so both sides use the same quantifier candidates");
    // injectivity of the h/t prefixing
    let names = ["p", "hp", "tp", "h", "t", "th", "ht", "p_h", "_p", "hhp", "tt", "q", "hq", "tq"];
    let mut copies: Vec<((String, usize), String, (String, usize))> = vec![];
    for n in names {
        for ar in [0usize, 1, 2] {
            let args = ["X", "Y"][..ar].join(", ");
            let atom = if ar == 0 { n.to_string() } else { format!("{n}({args})") };
            let Ok(f) = atom.parse::<fol::Formula>() else { continue };
            let g1 = f.clone().gamma();
            let g2 = format!("not {atom}").parse::<fol::Formula>().unwrap().gamma();
            for (w, g) in [("h", g1), ("t", g2)] {
                for p in g.predicates() {
                    copies.push(((n.to_string(), ar), w.to_string(), (p.symbol.clone(), p.arity)));
                }
            }
        }
    }
    run.valid(copies.len() as u64);
    for i in 0..copies.len() {
        for j in (i + 1)..copies.len() {
            if copies[i].2 == copies[j].2 {
                run.violation(
                    format!("copy_clash|{:?}|{:?}", copies[i], copies[j]),
                    json!({"kind": "two predicate copies coincide", "a": format!("{:?}", copies[i]), "b": format!("{:?}", copies[j])}),
                );
            }
        }
    }
    let seed = run.seed as usize;
    let idx: Vec<usize> = (0..total).collect();
    idx.par_iter().for_each(|&i0| {
        let i = (i0 + seed) % total;
        let text = &all[i];
        let _w = run.watch("formula", "formula", text);
        let f: fol::Formula = match text.parse() {
            Ok(f) => f,
            Err(_) => {
                run.skipped.fetch_add(1, std::sync::atomic::Ordering::Relaxed);
                return;
            }
        };
        let sem = generic_sem();
        let u2 = ht_universe(&sem.u);
        let mut interps = 0;
        let mut nt = vec![];
        let r = std::panic::catch_unwind(std::panic::AssertUnwindSafe(|| {
            check(&sem, &u2, &f, &mut interps, &mut nt)
        }));
        run.state();
        run.trans(interps);
        for h in nt {
            run.observe(h);
        }
        match r {
            Err(_) => run.violation(format!("panic|{text}"), json!({"kind": "panic", "formula": text})),
            Ok([Some(d), Some(_)]) => run.violation(
                format!("gamma|{text}"),
                json!({"kind": "gamma(F) disagrees with HT satisfaction of F", "formula": text, "detail": d}),
            ),
            Ok([None, None]) => {}
            Ok([a, b]) => {
                run.window_unstable.fetch_add(1, std::sync::atomic::Ordering::Relaxed);
                run.sample_force(json!({"window_unstable": text, "detail": a.or(b)}));
            }
        }
        if i < 2 || i + 1 == total {
            run.sample(json!({"formula": text, "gamma": f.clone().gamma().to_string()}));
        }
    });
}

pub fn replay(v: &Value) -> i32 {
    let text = v["replay"]["formula"].as_str().unwrap_or("");
    let Ok(f) = text.parse::<fol::Formula>() else {
        println!("replay: formula does not parse");
        return 2;
    };
    let sem = generic_sem();
    let u2 = ht_universe(&sem.u);
    let (mut n, mut nt) = (0, vec![]);
    let a = check(&sem, &u2, &f, &mut n, &mut nt);
    let b = check(&sem, &u2, &f, &mut n, &mut nt);
    if format!("{a:?}") != format!("{b:?}") {
        println!("replay: NON-DETERMINISTIC");
        return 2;
    }
    println!("replay of `{text}`: {}", serde_json::to_string(&a).unwrap());
    if a[0].is_some() || a[1].is_some() {
        1
    } else {
        0
    }
}
