//! Reference semantics of mini-gringo, written from the language definition (not from
//! anthem's translation): term values, ground instances as propositional HT formulas,
//! HT models and stable models with inputs.
use crate::dom::*;
use crate::tt::*;
use anthem::syntax_tree::asp::mini_gringo as asp;
use std::collections::{BTreeSet, HashMap};

/// assignment of the rule's variables; placeholders are stored under the key "#name"
pub type Asg = HashMap<String, Val>;

pub fn floor_div(i: i128, j: i128) -> (i128, i128) {
    // for j > 0 Euclidean division is floor division with non-negative remainder
    (i.div_euclid(j), i.rem_euclid(j))
}

pub struct Ctx {
    /// largest |integer| computed as (sub)term value
    pub maxabs: i128,
    /// placeholder name -> value
    pub placeholders: HashMap<String, Val>,
}

impl Ctx {
    pub fn new() -> Ctx {
        Ctx {
            maxabs: 0,
            placeholders: HashMap::new(),
        }
    }
}

pub fn vals(t: &asp::Term, a: &Asg, cx: &mut Ctx) -> BTreeSet<Val> {
    use asp::{BinaryOperator as B, PrecomputedTerm as PT, Term as T};
    let ints = |s: BTreeSet<Val>| -> Vec<i128> {
        s.into_iter()
            .filter_map(|v| if let Val::Int(i) = v { Some(i) } else { None })
            .collect()
    };
    let r: BTreeSet<Val> = match t {
        T::PrecomputedTerm(PT::Infimum) => [Val::Inf].into(),
        T::PrecomputedTerm(PT::Supremum) => [Val::Sup].into(),
        T::PrecomputedTerm(PT::Numeral(n)) => [Val::Int(*n as i128)].into(),
        T::PrecomputedTerm(PT::Symbol(s)) => match cx.placeholders.get(s) {
            Some(v) => [v.clone()].into(),
            None => [Val::Sym(s.clone())].into(),
        },
        T::Variable(v) => [a
            .get(&v.0)
            .unwrap_or_else(|| panic!("unassigned variable {}", v.0))
            .clone()]
        .into(),
        T::UnaryOperation { arg, .. } => ints(vals(arg, a, cx))
            .into_iter()
            .map(|i| Val::Int(-i))
            .collect(),
        T::BinaryOperation { op, lhs, rhs } => {
            let l = ints(vals(lhs, a, cx));
            let r = ints(vals(rhs, a, cx));
            let mut out = BTreeSet::new();
            for &i in &l {
                for &j in &r {
                    match op {
                        B::Add => {
                            out.insert(Val::Int(i + j));
                        }
                        B::Subtract => {
                            out.insert(Val::Int(i - j));
                        }
                        B::Multiply => {
                            out.insert(Val::Int(i * j));
                        }
                        B::Divide => {
                            if j > 0 {
                                out.insert(Val::Int(floor_div(i, j).0));
                            }
                        }
                        B::Modulo => {
                            if j > 0 {
                                out.insert(Val::Int(floor_div(i, j).1));
                            }
                        }
                        B::Interval => {
                            let mut k = i;
                            while k <= j {
                                out.insert(Val::Int(k));
                                k += 1;
                                if k - i > 4096 {
                                    break;
                                }
                            }
                        }
                    }
                }
            }
            out
        }
    };
    for v in &r {
        if let Val::Int(i) = v {
            cx.maxabs = cx.maxabs.max(i.abs());
        }
    }
    r
}

/// does some division/modulo in the term see a negative divisor under this assignment?
/// (region where the reference follows the implementation's documented convention)
pub fn negative_divisor(t: &asp::Term, a: &Asg, cx: &mut Ctx) -> bool {
    use asp::{BinaryOperator as B, Term as T};
    match t {
        T::PrecomputedTerm(_) | T::Variable(_) => false,
        T::UnaryOperation { arg, .. } => negative_divisor(arg, a, cx),
        T::BinaryOperation { op, lhs, rhs } => {
            if negative_divisor(lhs, a, cx) || negative_divisor(rhs, a, cx) {
                return true;
            }
            if matches!(op, B::Divide | B::Modulo) {
                return vals(rhs, a, cx)
                    .iter()
                    .any(|v| matches!(v, Val::Int(i) if *i < 0));
            }
            false
        }
    }
}

fn tuples(terms: &[asp::Term], a: &Asg, cx: &mut Ctx) -> Vec<Vec<Val>> {
    let mut out: Vec<Vec<Val>> = vec![vec![]];
    for t in terms {
        let vs = vals(t, a, cx);
        let mut n = vec![];
        for o in &out {
            for v in &vs {
                let mut x = o.clone();
                x.push(v.clone());
                n.push(x);
            }
        }
        out = n;
    }
    out
}

pub fn rel(r: asp::Relation, a: &Val, b: &Val) -> bool {
    use asp::Relation::*;
    match r {
        Equal => a == b,
        NotEqual => a != b,
        Less => a < b,
        LessEqual => a <= b,
        Greater => a > b,
        GreaterEqual => a >= b,
    }
}

/// Ground instance of `rule` under assignment `a` as a propositional HT formula.
pub fn instance(rule: &asp::Rule, a: &Asg, u: &Universe, cx: &mut Ctx) -> P {
    let mut body = vec![];
    for f in &rule.body.formulas {
        match f {
            asp::AtomicFormula::Literal(l) => {
                let ds: Vec<P> = tuples(&l.atom.terms, a, cx)
                    .into_iter()
                    .map(|t| {
                        let at = u.atom(&l.atom.predicate_symbol, &t);
                        match l.sign {
                            asp::Sign::NoSign => at,
                            asp::Sign::Negation => P::not(at),
                            asp::Sign::DoubleNegation => P::not(P::not(at)),
                        }
                    })
                    .collect();
                body.push(P::or(ds));
            }
            asp::AtomicFormula::Comparison(c) => {
                let l = vals(&c.lhs, a, cx);
                let r = vals(&c.rhs, a, cx);
                let ok = l.iter().any(|x| r.iter().any(|y| rel(c.relation, x, y)));
                body.push(if ok { P::T } else { P::F });
            }
        }
        if body.last() == Some(&P::F) {
            return P::T;
        }
    }
    let body = P::and(body);
    let head = match &rule.head {
        asp::Head::Falsity => P::F,
        asp::Head::Basic(at) => P::and(
            tuples(&at.terms, a, cx)
                .into_iter()
                .map(|t| u.atom(&at.predicate_symbol, &t))
                .collect(),
        ),
        asp::Head::Choice(at) => P::and(
            tuples(&at.terms, a, cx)
                .into_iter()
                .map(|t| {
                    let x = u.atom(&at.predicate_symbol, &t);
                    if x == P::F {
                        // an atom outside U is false in every interpretation considered:
                        // `F or not F` is true
                        P::T
                    } else {
                        P::or(vec![x.clone(), P::not(x)])
                    }
                })
                .collect(),
        ),
    };
    P::imp(body, head)
}

/// Conjunction of all instances of `rule` with its variables ranging over `dom`.
pub fn rule_sem(rule: &asp::Rule, dom: &[Val], u: &Universe, cx: &mut Ctx) -> P {
    let vars: Vec<String> = rule.variables().into_iter().map(|v| v.0).collect();
    let mut out = vec![];
    let mut a = Asg::new();
    fn rec(
        i: usize,
        vars: &[String],
        dom: &[Val],
        a: &mut Asg,
        rule: &asp::Rule,
        u: &Universe,
        cx: &mut Ctx,
        out: &mut Vec<P>,
    ) {
        if i == vars.len() {
            let p = instance(rule, a, u, cx);
            if p != P::T {
                out.push(p);
            }
            return;
        }
        for d in dom {
            a.insert(vars[i].clone(), d.clone());
            rec(i + 1, vars, dom, a, rule, u, cx, out);
        }
        a.remove(&vars[i]);
    }
    rec(0, &vars, dom, &mut a, rule, u, cx, &mut out);
    P::and(out)
}

pub fn program_sem(prog: &asp::Program, dom: &[Val], u: &Universe, cx: &mut Ctx) -> P {
    P::and(prog.rules.iter().map(|r| rule_sem(r, dom, u, cx)).collect())
}

/// does any instance over `dom` involve a negative divisor?
pub fn program_has_negative_divisor(prog: &asp::Program, dom: &[Val], cx: &mut Ctx) -> bool {
    fn terms_of(rule: &asp::Rule) -> Vec<asp::Term> {
        rule.terms().into_iter().collect()
    }
    for rule in &prog.rules {
        let vars: Vec<String> = rule.variables().into_iter().map(|v| v.0).collect();
        let ts = terms_of(rule);
        let mut idx = vec![0usize; vars.len()];
        loop {
            let a: Asg = vars
                .iter()
                .cloned()
                .zip(idx.iter().map(|i| dom[*i].clone()))
                .collect();
            if ts.iter().any(|t| negative_divisor(t, &a, cx)) {
                return true;
            }
            let mut k = 0;
            loop {
                if k == vars.len() {
                    break;
                }
                idx[k] += 1;
                if idx[k] < dom.len() {
                    break;
                }
                idx[k] = 0;
                k += 1;
            }
            if k == vars.len() {
                break;
            }
        }
    }
    false
}

/// Stable models of the ground program `p` with inputs: the set of T (bitmask over U) such
/// that (T,T) |= p and there is no H strictly inside T, agreeing with T on the `input` atoms,
/// with (H,T) |= p.  Computed from the HT truth table; returns a classical table over
/// |U| variables.
pub fn stable_table(hs: &HtSpace, p: &P, input_mask: u64) -> (Space, Table) {
    let n = hs.n;
    assert!(hs.fixed == 0 || hs.fixed == input_mask, "HT space fixed atoms must be the input atoms");
    let sat = hs.sat(p);
    let sp = Space::new(n);
    let mut out = sp.zero();
    for t in 0u64..(1u64 << n) {
        if !hs.sp.get(&sat, hs.index(t, t)) {
            continue;
        }
        // proper subsets h of t with h containing t & input_mask
        let free = t & !input_mask;
        let fixed = t & input_mask;
        let mut stable = true;
        if free != 0 {
            // enumerate proper sub-masks of `free`
            let mut s = (free - 1) & free;
            loop {
                let h = s | fixed;
                if hs.sp.get(&sat, hs.index(h, t)) {
                    stable = false;
                    break;
                }
                if s == 0 {
                    break;
                }
                s = (s - 1) & free;
            }
        }
        if stable {
            out[(t / 64) as usize] |= 1u64 << (t % 64);
        }
    }
    (sp, out)
}

/// Documented applicability analyses (for C11), from the manual's definitions.
/// (symbol, arity) of every atom that heads a rule, basic or choice - read off the rules directly, not
/// through anthem's `Program::head_predicates`
pub fn head_predicates(prog: &asp::Program) -> Vec<(String, usize)> {
    let mut out: Vec<(String, usize)> = vec![];
    for r in &prog.rules {
        let k = match &r.head {
            asp::Head::Basic(a) | asp::Head::Choice(a) => (a.predicate_symbol.clone(), a.terms.len()),
            asp::Head::Falsity => continue,
        };
        if !out.contains(&k) {
            out.push(k);
        }
    }
    out
}

pub fn positive_dependency_cyclic(prog: &asp::Program) -> bool {
    // edge head predicate -> predicates occurring unnegated in the body
    let mut edges: Vec<((String, usize), (String, usize))> = vec![];
    for r in &prog.rules {
        if let Some(h) = r.head.predicate() {
            for f in &r.body.formulas {
                if let asp::AtomicFormula::Literal(l) = f {
                    if l.sign == asp::Sign::NoSign {
                        edges.push((
                            (h.symbol.clone(), h.arity),
                            (l.atom.predicate_symbol.clone(), l.atom.terms.len()),
                        ));
                    }
                }
            }
        }
    }
    has_cycle(&edges)
}

pub fn has_cycle(edges: &[((String, usize), (String, usize))]) -> bool {
    let mut nodes: Vec<(String, usize)> = vec![];
    for (a, b) in edges {
        if !nodes.contains(a) {
            nodes.push(a.clone());
        }
        if !nodes.contains(b) {
            nodes.push(b.clone());
        }
    }
    // reachability closure
    let n = nodes.len();
    let mut reach = vec![vec![false; n]; n];
    for (a, b) in edges {
        let i = nodes.iter().position(|x| x == a).unwrap();
        let j = nodes.iter().position(|x| x == b).unwrap();
        reach[i][j] = true;
    }
    for k in 0..n {
        for i in 0..n {
            for j in 0..n {
                if reach[i][k] && reach[k][j] {
                    reach[i][j] = true;
                }
            }
        }
    }
    (0..n).any(|i| reach[i][i])
}

/// private recursion: a choice rule with a private head, or a cycle among private
/// predicates through any body occurrence
pub fn private_recursion(prog: &asp::Program, private: &[(String, usize)]) -> bool {
    let mut edges = vec![];
    for r in &prog.rules {
        if let asp::Head::Choice(a) = &r.head {
            if private.contains(&(a.predicate_symbol.clone(), a.terms.len())) {
                return true;
            }
        }
        if let Some(h) = r.head.predicate() {
            let hk = (h.symbol.clone(), h.arity);
            if !private.contains(&hk) {
                continue;
            }
            for f in &r.body.formulas {
                if let asp::AtomicFormula::Literal(l) = f {
                    let bk = (l.atom.predicate_symbol.clone(), l.atom.terms.len());
                    if private.contains(&bk) {
                        edges.push((hk.clone(), bk));
                    }
                }
            }
        }
    }
    has_cycle(&edges)
}
