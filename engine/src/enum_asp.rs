//! Bounded-exhaustive generators for mini-gringo terms, rules and programs (as text;
//! every text is parsed by anthem, so the trees are in the image of its parser).

pub fn leaves(thorough: bool) -> Vec<String> {
    let mut v: Vec<&str> = vec!["X", "Y", "0", "1", "2", "-1", "a", "#inf", "#sup"];
    if thorough {
        v.extend(["3", "-2", "b"]);
    }
    v.into_iter().map(String::from).collect()
}

pub const OPS: [&str; 6] = ["+", "-", "*", "/", "\\", ".."];

fn paren(t: &str) -> String {
    // leaves need no parentheses except negative numerals on the right of an operator
    if t.chars().all(|c| c.is_alphanumeric() || c == '#') {
        t.to_string()
    } else {
        format!("({t})")
    }
}

/// terms with exactly `k` operator nodes over the given leaves; k in 0..=2
pub fn terms_exact(k: usize, lv: &[String]) -> Vec<String> {
    match k {
        0 => lv.to_vec(),
        1 => {
            let mut out = vec![];
            for a in lv {
                out.push(format!("-{}", paren(a)));
            }
            for op in OPS {
                for a in lv {
                    for b in lv {
                        out.push(format!("{}{}{}", paren(a), op, paren(b)));
                    }
                }
            }
            out
        }
        2 => {
            let t1 = terms_exact(1, lv);
            let mut out = vec![];
            for a in &t1 {
                out.push(format!("-({a})"));
            }
            for op in OPS {
                for a in &t1 {
                    for b in lv {
                        out.push(format!("({a}){op}{}", paren(b)));
                        out.push(format!("{}{op}({a})", paren(b)));
                    }
                }
            }
            out
        }
        _ => unimplemented!(),
    }
}

pub fn terms_upto(k: usize, lv: &[String]) -> Vec<String> {
    let mut out = vec![];
    for i in 0..=k {
        out.extend(terms_exact(i, lv));
    }
    out
}

pub const RELS: [&str; 6] = ["=", "!=", "<", "<=", ">", ">="];
pub const SIGNS: [&str; 3] = ["", "not ", "not not "];

/// single-term rule contexts; `{}` is replaced by the term
pub fn single_term_contexts() -> Vec<&'static str> {
    vec![
        "p({}) :- q(X), q(Y).",
        "{p({})} :- q(X).",
        "p({}).",
        "r :- q({}).",
        "r :- not q({}).",
        "r :- not not q({}).",
        "r :- q({}), q(X), q(Y).",
        "r :- not q({}), q(X), q(Y).",
        "r :- not not q({}), q(X).",
        ":- q({}), q(X).",
        ":- not q({}), q(X), q(Y).",
        "{r} :- q({}).",
    ]
}

/// contexts in which ONE term occurs in two argument positions of the same atom (a multi-valued
/// term takes its values independently in each position)
pub fn repeated_term_contexts() -> Vec<&'static str> {
    vec![
        "r :- s({}, {}).",
        "r :- not s({}, {}).",
        "r :- not not s({}, {}), q(X).",
        "r :- s({}, {}), q(X), q(Y).",
        "s({}, {}) :- q(X), q(Y).",
        "{s({}, {})} :- q(X).",
        "r :- t({}, X, {}), q(X).",
        // the head atom recurs, syntactically identical, in its own body
        "q({}) :- q({}).",
        "q({}) :- q({}), q(X).",
        "s({}, X) :- s({}, X), q(X).",
    ]
}

/// two-term contexts: comparisons and binary heads; `{0}` `{1}` `{R}`
pub fn comparison_contexts() -> Vec<&'static str> {
    vec![
        "r :- {0} {R} {1}, q(X), q(Y).",
        "r :- {0} {R} {1}.",
        "p(X) :- q(X), {0} {R} {1}.",
    ]
}

pub fn inst(ctx: &str, t: &str) -> String {
    ctx.replace("{}", t)
}
pub fn inst2(ctx: &str, a: &str, r: &str, b: &str) -> String {
    ctx.replace("{0}", a).replace("{R}", r).replace("{1}", b)
}

pub const ADVERSARIAL: [&str; 14] = [
    "I", "J", "K", "Q", "R", "Z", "Z1", "V", "V1", "V2", "I1", "J1", "N0", "N1",
];

/// rename variables X and Y (whole-word) in a rule text
pub fn rename_xy(rule: &str, x: &str, y: &str) -> String {
    let mut out = String::new();
    let cs: Vec<char> = rule.chars().collect();
    let mut i = 0;
    while i < cs.len() {
        let c = cs[i];
        if c.is_ascii_uppercase() {
            let mut j = i;
            while j < cs.len() && (cs[j].is_ascii_alphanumeric()) {
                j += 1;
            }
            let w: String = cs[i..j].iter().collect();
            match w.as_str() {
                "X" => out.push_str(x),
                "Y" => out.push_str(y),
                _ => out.push_str(&w),
            }
            i = j;
        } else {
            out.push(c);
            i += 1;
        }
    }
    out
}

/// rule templates whose translation introduces every kind of fresh variable
pub fn adversarial_templates() -> Vec<&'static str> {
    vec![
        "p(X+Y) :- q(X), q(Y).",
        "p(X/Y) :- q(X), q(Y).",
        "p(X\\Y) :- q(X), q(Y).",
        "p(X..Y) :- q(X), q(Y).",
        "p(-X) :- q(X), q(Y).",
        "p(X) :- q(X+1), not q(Y*2).",
        "p(X) :- q(X), q(Y), X+1 < Y*2.",
        "p(X) :- q(X), q(Y), X = 0..Y.",
        "{p(X/2)} :- q(X), not q(Y).",
        "r :- q(X..Y).",
        ":- q(X), q(Y), X/Y > 0.",
        "p((X+1)/(Y+1)) :- q(X), q(Y).",
        "p(0..X) :- q(X), q(Y/1).",
        "p(X,Y) :- q(X), q(Y+1).",
        "p(X,1..2) :- q(X), q(Y).",
        // body atoms of arity 2 and 3, comparisons over two variables
        "r :- s(X,Y).",
        ":- s(Y,X).",
        "r :- not s(X,Y).",
        "r :- not not s(Y,X), q(X).",
        "r :- s(X,a,Y).",
        "r :- s(X,a,b).",
        "r :- s(a,X,b).",
        "r :- X < Y, q(X), q(Y).",
        "r :- Y != X.",
        "{s(X,Y)} :- s(Y,X).",
        "p(X) :- s(X,Y), not s(Y,X).",
        "s(X,Y) :- q(X), q(Y), X <= Y.",
        "s(X+Y,X) :- q(X), q(Y).",
    ]
}

/// a small rule alphabet for 2-rule programs (global V_n choice, several heads)
pub fn program_rule_alphabet() -> Vec<&'static str> {
    vec![
        "p(X) :- q(X).",
        "p(X+1) :- q(X).",
        "p(V1) :- q(V1).",
        "p(V2) :- q(V2), not q(V1).",
        "p(V) :- q(V).",
        "p(1..2).",
        "{p(X)} :- q(X).",
        "q(X) :- p(X), X > 0.",
        "q(X/2) :- p(X).",
        "r :- p(X), not q(X).",
        ":- p(X), q(X).",
        "{q(1)}.",
        "p(a).",
        "q(X) :- p(X), not not q(X).",
        "p(V1+V3) :- q(V1), q(V3).",
        "r :- not r.",
        "p(X) :- X = 1..2, not q(X).",
        "q(-X) :- p(X).",
        "p(#inf).",
        "q(X) :- p(X), X != a.",
    ]
}
