//! Reader, type checker and translator for the TFF subset anthem emits, written from the
//! TPTP grammar (not from anthem's printer).
//!
//! Grammar choices (TPTP v7+):  `~` binds tighter than every binary connective and takes a
//! unit formula, where an infix (in)equality `s = t` is a unit;  `&` and `|` are associative
//! but may not be mixed without parentheses;  `=>`, `<=`, `<=>` are non-associative;
//! a quantifier's body is a unit formula.
use anthem::syntax_tree::fol::sigma_0 as fol;
use std::collections::HashMap;

#[derive(Clone, Debug, PartialEq)]
pub enum Tok {
    Lower(String),
    Upper(String),
    Dollar(String),
    Int(String),
    Sym(&'static str),
}

#[derive(Clone, Debug, PartialEq, Eq, Hash)]
pub enum Ty {
    Int,
    General,
    Symbol,
    O,
    TType,
    Other(String),
}

#[derive(Clone, Debug, PartialEq)]
pub struct Sig {
    pub args: Vec<Ty>,
    pub res: Ty,
}

#[derive(Clone, Debug, PartialEq)]
pub enum TTerm {
    Var(String),
    Num(i128),
    App(String, Vec<TTerm>),
}

#[derive(Clone, Debug, PartialEq)]
pub enum TForm {
    True,
    False,
    Pred(String, Vec<TTerm>),
    Eq(TTerm, TTerm),
    Neq(TTerm, TTerm),
    Not(Box<TForm>),
    Bin(&'static str, Box<TForm>, Box<TForm>),
    Quant(bool, Vec<(String, Ty)>, Box<TForm>),
}

#[derive(Clone, Debug)]
pub enum Entry {
    Type { name: String, symbol: String, sig: Sig },
    Formula { name: String, role: String, formula: TForm },
}

#[derive(Clone, Debug)]
pub struct Diag {
    pub code: String,
    pub detail: String,
}

fn diag(code: &str, detail: String) -> Diag {
    Diag { code: code.to_string(), detail }
}

pub fn lex(src: &str) -> Result<Vec<Tok>, Diag> {
    let cs: Vec<char> = src.chars().collect();
    let mut i = 0;
    let mut out = vec![];
    while i < cs.len() {
        let c = cs[i];
        if c.is_whitespace() {
            i += 1;
            continue;
        }
        if c == '%' {
            while i < cs.len() && cs[i] != '\n' {
                i += 1;
            }
            continue;
        }
        if c.is_ascii_lowercase() || c.is_ascii_uppercase() {
            let s = i;
            while i < cs.len() && (cs[i].is_ascii_alphanumeric() || cs[i] == '_') {
                i += 1;
            }
            let w: String = cs[s..i].iter().collect();
            out.push(if c.is_ascii_lowercase() { Tok::Lower(w) } else { Tok::Upper(w) });
            continue;
        }
        if c == '$' {
            let s = i;
            i += 1;
            if i < cs.len() && cs[i] == '$' {
                i += 1;
            }
            if i >= cs.len() || !cs[i].is_ascii_lowercase() {
                return Err(diag("syntax", format!("bad $-word at offset {s}")));
            }
            while i < cs.len() && (cs[i].is_ascii_alphanumeric() || cs[i] == '_') {
                i += 1;
            }
            out.push(Tok::Dollar(cs[s..i].iter().collect()));
            continue;
        }
        if c.is_ascii_digit() || ((c == '-' || c == '+') && i + 1 < cs.len() && cs[i + 1].is_ascii_digit()) {
            let s = i;
            i += 1;
            while i < cs.len() && cs[i].is_ascii_digit() {
                i += 1;
            }
            let w: String = cs[s..i].iter().collect();
            let digits = w.trim_start_matches(['-', '+']);
            if digits.len() > 1 && digits.starts_with('0') {
                return Err(diag("syntax", format!("numeral with leading zero `{w}`")));
            }
            out.push(Tok::Int(w));
            continue;
        }
        let three: String = cs[i..std::cmp::min(i + 3, cs.len())].iter().collect();
        let two: String = cs[i..std::cmp::min(i + 2, cs.len())].iter().collect();
        let sym: Option<&'static str> = if three == "<=>" {
            Some("<=>")
        } else if three == "<~>" {
            Some("<~>")
        } else if two == "=>" {
            Some("=>")
        } else if two == "<=" {
            Some("<=")
        } else if two == "!=" {
            Some("!=")
        } else if two == "~|" {
            Some("~|")
        } else if two == "~&" {
            Some("~&")
        } else {
            match c {
                '(' => Some("("),
                ')' => Some(")"),
                '[' => Some("["),
                ']' => Some("]"),
                ',' => Some(","),
                '.' => Some("."),
                ':' => Some(":"),
                '!' => Some("!"),
                '?' => Some("?"),
                '~' => Some("~"),
                '&' => Some("&"),
                '|' => Some("|"),
                '=' => Some("="),
                '>' => Some(">"),
                '*' => Some("*"),
                _ => None,
            }
        };
        match sym {
            Some(s) => {
                i += s.len();
                out.push(Tok::Sym(s));
            }
            None => {
                return Err(diag(
                    "syntax",
                    format!("illegal character `{c}` at offset {i} (`{}`)", cs[i..std::cmp::min(i + 20, cs.len())].iter().collect::<String>()),
                ))
            }
        }
    }
    Ok(out)
}

struct Parser {
    t: Vec<Tok>,
    i: usize,
}

impl Parser {
    fn peek(&self) -> Option<&Tok> {
        self.t.get(self.i)
    }
    fn next(&mut self) -> Option<Tok> {
        let x = self.t.get(self.i).cloned();
        self.i += 1;
        x
    }
    fn is(&self, s: &str) -> bool {
        matches!(self.peek(), Some(Tok::Sym(x)) if *x == s)
    }
    fn expect(&mut self, s: &str) -> Result<(), Diag> {
        if self.is(s) {
            self.i += 1;
            Ok(())
        } else {
            Err(diag("syntax", format!("expected `{s}` but found {:?} (token {})", self.peek(), self.i)))
        }
    }
    fn ty_atom(&mut self) -> Result<Ty, Diag> {
        match self.next() {
            Some(Tok::Dollar(d)) => match d.as_str() {
                "$int" => Ok(Ty::Int),
                "$o" => Ok(Ty::O),
                "$tType" => Ok(Ty::TType),
                "$i" | "$rat" | "$real" => Ok(Ty::Other(d)),
                _ => Err(diag("syntax", format!("unknown defined type {d}"))),
            },
            Some(Tok::Lower(w)) => Ok(match w.as_str() {
                "general" => Ty::General,
                "symbol" => Ty::Symbol,
                _ => Ty::Other(w),
            }),
            x => Err(diag("syntax", format!("expected a type, found {x:?}"))),
        }
    }
    fn sig(&mut self) -> Result<Sig, Diag> {
        if self.is("(") {
            self.i += 1;
            // either a parenthesised whole type or an argument product
            let mut args = vec![self.ty_atom()?];
            while self.is("*") {
                self.i += 1;
                args.push(self.ty_atom()?);
            }
            self.expect(")")?;
            if self.is(">") {
                self.i += 1;
                let res = self.ty_atom()?;
                Ok(Sig { args, res })
            } else if args.len() == 1 {
                Ok(Sig { args: vec![], res: args.pop().unwrap() })
            } else {
                Err(diag("syntax", "product type without result".into()))
            }
        } else {
            let a = self.ty_atom()?;
            if self.is(">") {
                self.i += 1;
                let res = self.ty_atom()?;
                Ok(Sig { args: vec![a], res })
            } else {
                Ok(Sig { args: vec![], res: a })
            }
        }
    }
    fn term(&mut self) -> Result<TTerm, Diag> {
        match self.next() {
            Some(Tok::Upper(v)) => Ok(TTerm::Var(v)),
            Some(Tok::Int(n)) => n
                .parse::<i128>()
                .map(TTerm::Num)
                .map_err(|_| diag("syntax", format!("numeral {n}"))),
            Some(Tok::Lower(f)) | Some(Tok::Dollar(f)) => {
                let mut args = vec![];
                if self.is("(") {
                    self.i += 1;
                    args.push(self.term()?);
                    while self.is(",") {
                        self.i += 1;
                        args.push(self.term()?);
                    }
                    self.expect(")")?;
                }
                Ok(TTerm::App(f, args))
            }
            x => Err(diag("syntax", format!("expected a term, found {x:?} (token {})", self.i - 1))),
        }
    }
    fn atomic(&mut self) -> Result<TForm, Diag> {
        if let Some(Tok::Dollar(d)) = self.peek() {
            if d == "$true" {
                self.i += 1;
                return Ok(TForm::True);
            }
            if d == "$false" {
                self.i += 1;
                return Ok(TForm::False);
            }
        }
        let l = self.term()?;
        if self.is("=") {
            self.i += 1;
            let r = self.term()?;
            return Ok(TForm::Eq(l, r));
        }
        if self.is("!=") {
            self.i += 1;
            let r = self.term()?;
            return Ok(TForm::Neq(l, r));
        }
        match l {
            TTerm::App(f, args) => Ok(TForm::Pred(f, args)),
            other => Err(diag("syntax", format!("term {other:?} used as a formula"))),
        }
    }
    fn unit(&mut self) -> Result<TForm, Diag> {
        if self.is("~") {
            self.i += 1;
            let f = self.unit()?;
            return Ok(TForm::Not(Box::new(f)));
        }
        if self.is("!") || self.is("?") {
            let forall = self.is("!");
            self.i += 1;
            self.expect("[")?;
            let mut vars = vec![];
            loop {
                let v = match self.next() {
                    Some(Tok::Upper(v)) => v,
                    x => return Err(diag("syntax", format!("expected a variable in quantifier, found {x:?}"))),
                };
                let ty = if self.is(":") {
                    self.i += 1;
                    self.ty_atom()?
                } else {
                    return Err(diag("untyped_variable", format!("variable {v} bound without a type")));
                };
                vars.push((v, ty));
                if self.is(",") {
                    self.i += 1;
                } else {
                    break;
                }
            }
            self.expect("]")?;
            self.expect(":")?;
            let body = self.unit()?;
            return Ok(TForm::Quant(forall, vars, Box::new(body)));
        }
        if self.is("(") {
            self.i += 1;
            let f = self.formula()?;
            self.expect(")")?;
            // `(t) = u` is not TPTP; a parenthesised formula is a unit
            return Ok(f);
        }
        self.atomic()
    }
    fn formula(&mut self) -> Result<TForm, Diag> {
        let first = self.unit()?;
        if self.is("&") || self.is("|") {
            let op: &'static str = if self.is("&") { "&" } else { "|" };
            let mut acc = first;
            while self.is(op) {
                self.i += 1;
                let r = self.unit()?;
                acc = TForm::Bin(op, Box::new(acc), Box::new(r));
            }
            if self.is("&") || self.is("|") {
                return Err(diag("syntax", "`&` and `|` mixed without parentheses".into()));
            }
            for o in ["=>", "<=", "<=>", "<~>", "~|", "~&"] {
                if self.is(o) {
                    return Err(diag("syntax", format!("`{op}` chain followed by `{o}` without parentheses")));
                }
            }
            return Ok(acc);
        }
        for o in ["=>", "<=", "<=>"] {
            if self.is(o) {
                self.i += 1;
                let r = self.unit()?;
                for o2 in ["=>", "<=", "<=>", "&", "|", "<~>", "~|", "~&"] {
                    if self.is(o2) {
                        return Err(diag("syntax", format!("non-associative `{o}` followed by `{o2}` without parentheses")));
                    }
                }
                return Ok(TForm::Bin(o, Box::new(first), Box::new(r)));
            }
        }
        for o in ["<~>", "~|", "~&"] {
            if self.is(o) {
                return Err(diag("syntax", format!("connective `{o}` is outside the subset read here")));
            }
        }
        Ok(first)
    }
}

pub fn parse_file(src: &str) -> Result<Vec<Entry>, Diag> {
    let toks = lex(src)?;
    let mut p = Parser { t: toks, i: 0 };
    let mut out = vec![];
    while p.peek().is_some() {
        match p.next() {
            Some(Tok::Lower(w)) if w == "tff" => {}
            x => return Err(diag("syntax", format!("expected `tff`, found {x:?}"))),
        }
        p.expect("(")?;
        let name = match p.next() {
            Some(Tok::Lower(n)) => n,
            Some(Tok::Int(n)) => n,
            x => return Err(diag("syntax", format!("bad formula name {x:?}"))),
        };
        p.expect(",")?;
        let role = match p.next() {
            Some(Tok::Lower(r)) => r,
            x => return Err(diag("syntax", format!("bad role {x:?}"))),
        };
        p.expect(",")?;
        if role == "type" {
            let mut parens = 0;
            while p.is("(") {
                // could be a parenthesised `name: type`
                if matches!(p.t.get(p.i + 1), Some(Tok::Lower(_))) && matches!(p.t.get(p.i + 2), Some(Tok::Sym(":"))) {
                    p.i += 1;
                    parens += 1;
                } else {
                    break;
                }
            }
            let symbol = match p.next() {
                Some(Tok::Lower(s)) | Some(Tok::Dollar(s)) => s,
                x => return Err(diag("syntax", format!("bad symbol in type declaration `{name}`: {x:?}"))),
            };
            p.expect(":")?;
            let sig = p.sig()?;
            for _ in 0..parens {
                p.expect(")")?;
            }
            out.push(Entry::Type { name, symbol, sig });
        } else {
            let f = p.formula()?;
            out.push(Entry::Formula { name, role, formula: f });
        }
        p.expect(")")?;
        p.expect(".")?;
    }
    Ok(out)
}

pub struct Checked {
    pub entries: Vec<Entry>,
    pub decls: HashMap<(String, usize), Sig>,
    pub diags: Vec<Diag>,
}

fn builtin(name: &str) -> Option<Sig> {
    let ii = |res: Ty| Some(Sig { args: vec![Ty::Int, Ty::Int], res });
    match name {
        "$sum" | "$difference" | "$product" => ii(Ty::Int),
        "$uminus" => Some(Sig { args: vec![Ty::Int], res: Ty::Int }),
        "$less" | "$lesseq" | "$greater" | "$greatereq" => ii(Ty::O),
        _ => None,
    }
}

struct Tc<'a> {
    decls: &'a HashMap<(String, usize), Sig>,
    diags: Vec<Diag>,
    fname: String,
}

impl<'a> Tc<'a> {
    fn term(&mut self, t: &TTerm, env: &Vec<(String, Ty)>) -> Option<Ty> {
        match t {
            TTerm::Num(_) => Some(Ty::Int),
            TTerm::Var(v) => match env.iter().rev().find(|(n, _)| n == v) {
                Some((_, ty)) => Some(ty.clone()),
                None => {
                    self.diags.push(diag("unbound_var", format!("{}: variable {v} is not bound by a quantifier", self.fname)));
                    None
                }
            },
            TTerm::App(f, args) => {
                let sig = if f.starts_with('$') {
                    builtin(f)
                } else {
                    self.decls.get(&(f.clone(), args.len())).cloned()
                };
                let Some(sig) = sig else {
                    self.diags.push(diag("undeclared", format!("{}: symbol {f}/{} is used but not declared", self.fname, args.len())));
                    for a in args {
                        self.term(a, env);
                    }
                    return None;
                };
                if sig.args.len() != args.len() {
                    self.diags.push(diag("type", format!("{}: {f} applied to {} arguments", self.fname, args.len())));
                }
                for (a, want) in args.iter().zip(sig.args.iter()) {
                    if let Some(got) = self.term(a, env) {
                        if got != *want {
                            self.diags.push(diag("type", format!("{}: argument of {f} has type {got:?}, expected {want:?}", self.fname)));
                        }
                    }
                }
                Some(sig.res)
            }
        }
    }
    fn form(&mut self, f: &TForm, env: &mut Vec<(String, Ty)>) {
        match f {
            TForm::True | TForm::False => {}
            TForm::Pred(p, args) => {
                let t = self.term(&TTerm::App(p.clone(), args.clone()), env);
                if let Some(t) = t {
                    if t != Ty::O {
                        self.diags.push(diag("type", format!("{}: {p} is used as a formula but has result type {t:?}", self.fname)));
                    }
                }
            }
            TForm::Eq(a, b) | TForm::Neq(a, b) => {
                let ta = self.term(a, env);
                let tb = self.term(b, env);
                if let (Some(x), Some(y)) = (ta, tb) {
                    if x != y {
                        self.diags.push(diag("type", format!("{}: equality between {x:?} and {y:?}", self.fname)));
                    }
                    if x == Ty::O {
                        self.diags.push(diag("type", format!("{}: equality between formulas", self.fname)));
                    }
                }
            }
            TForm::Not(g) => self.form(g, env),
            TForm::Bin(_, a, b) => {
                self.form(a, env);
                self.form(b, env);
            }
            TForm::Quant(_, vars, g) => {
                let n = env.len();
                for (v, t) in vars {
                    if matches!(t, Ty::O | Ty::TType | Ty::Other(_)) {
                        self.diags.push(diag("type", format!("{}: variable {v} of type {t:?}", self.fname)));
                    }
                    env.push((v.clone(), t.clone()));
                }
                self.form(g, env);
                env.truncate(n);
            }
        }
    }
}

/// Parse and check a whole problem file.
pub fn check(src: &str) -> Checked {
    let mut diags = vec![];
    let entries = match parse_file(src) {
        Ok(e) => e,
        Err(d) => {
            return Checked { entries: vec![], decls: HashMap::new(), diags: vec![d] };
        }
    };
    let mut decls: HashMap<(String, usize), Sig> = HashMap::new();
    let mut type_names: Vec<String> = vec![];
    let mut names: Vec<String> = vec![];
    for e in &entries {
        let n = match e {
            Entry::Type { name, .. } | Entry::Formula { name, .. } => name.clone(),
        };
        if names.contains(&n) {
            diags.push(diag("dup_name", format!("formula name {n} is used twice")));
        }
        names.push(n);
        if let Entry::Type { symbol, sig, .. } = e {
            if sig.res == Ty::TType {
                if type_names.contains(symbol) {
                    diags.push(diag("duplicate_decl", format!("type {symbol} declared twice")));
                }
                type_names.push(symbol.clone());
                continue;
            }
            for t in sig.args.iter().chain(std::iter::once(&sig.res)) {
                match t {
                    Ty::General if !type_names.contains(&"general".to_string()) => diags.push(diag("undeclared", "type general used before its declaration".into())),
                    Ty::Symbol if !type_names.contains(&"symbol".to_string()) => diags.push(diag("undeclared", "type symbol used before its declaration".into())),
                    Ty::Other(o) if !type_names.contains(o) => diags.push(diag("undeclared", format!("type {o} is not declared"))),
                    _ => {}
                }
            }
            let k = (symbol.clone(), sig.args.len());
            if type_names.contains(symbol) {
                diags.push(diag("conflicting_decl", format!("symbol {symbol}/{} is also declared as a type", k.1)));
            }
            if symbol.starts_with('$') {
                diags.push(diag("duplicate_decl", format!("defined symbol {symbol} redeclared")));
            }
            if let Some(old) = decls.get(&k) {
                if old == sig {
                    diags.push(diag("duplicate_decl", format!("symbol {symbol}/{} is declared twice", k.1)));
                } else {
                    diags.push(diag("conflicting_decl", format!("symbol {symbol}/{} is declared at two types: {old:?} and {sig:?}", k.1)));
                }
            }
            decls.insert(k, sig.clone());
        }
    }
    let mut nconj = 0;
    for e in &entries {
        if let Entry::Formula { name, role, formula } = e {
            match role.as_str() {
                "axiom" | "hypothesis" | "lemma" | "definition" => {}
                "conjecture" => nconj += 1,
                r => diags.push(diag("role", format!("formula {name} has unsupported role {r}"))),
            }
            let mut tc = Tc { decls: &decls, diags: vec![], fname: name.clone() };
            tc.form(formula, &mut vec![]);
            diags.extend(tc.diags);
        }
    }
    if nconj != 1 {
        diags.push(diag("conjecture_count", format!("{nconj} conjectures")));
    }
    Checked { entries, decls, diags }
}

// ------------------------------------------------------------------ translation to anthem's AST

pub struct Denote {
    /// TFF constant name -> placeholder (function constant) name and sort
    pub placeholders: HashMap<String, (String, fol::Sort)>,
    /// TFF symbol constant -> the input symbol it denotes (identity if absent)
    pub symbols: HashMap<String, String>,
}

impl Denote {
    pub fn identity() -> Denote {
        Denote { placeholders: HashMap::new(), symbols: HashMap::new() }
    }
}

fn sort_of(t: &Ty) -> Option<fol::Sort> {
    match t {
        Ty::Int => Some(fol::Sort::Integer),
        Ty::General => Some(fol::Sort::General),
        Ty::Symbol => Some(fol::Sort::Symbol),
        _ => None,
    }
}

pub struct Tr<'a> {
    pub decls: &'a HashMap<(String, usize), Sig>,
    pub den: &'a Denote,
}

impl<'a> Tr<'a> {
    fn var_name(v: &str, t: &Ty) -> String {
        // keep distinct TFF variables distinct: the TFF name is used verbatim; the sort keeps
        // same-named variables of different types apart
        let _ = t;
        v.to_string()
    }
    pub fn int_term(&self, t: &TTerm, env: &Vec<(String, Ty)>) -> Result<fol::IntegerTerm, String> {
        match t {
            TTerm::Num(n) => Ok(fol::IntegerTerm::Numeral(isize::try_from(*n).map_err(|_| "numeral out of range".to_string())?)),
            TTerm::Var(v) => Ok(fol::IntegerTerm::Variable(Self::var_name(v, &Ty::Int))),
            TTerm::App(f, args) => match (f.as_str(), args.len()) {
                ("$uminus", 1) if matches!(&args[0], TTerm::Num(n) if *n > isize::MAX as i128 && -*n >= isize::MIN as i128) => {
                    // -(2^63) is representable although 2^63 is not
                    let TTerm::Num(n) = &args[0] else { unreachable!() };
                    Ok(fol::IntegerTerm::Numeral((-*n) as isize))
                }
                ("$uminus", 1) => Ok(fol::IntegerTerm::UnaryOperation { op: fol::UnaryOperator::Negative, arg: Box::new(self.int_term(&args[0], env)?) }),
                ("$sum", 2) | ("$difference", 2) | ("$product", 2) => Ok(fol::IntegerTerm::BinaryOperation {
                    op: match f.as_str() {
                        "$sum" => fol::BinaryOperator::Add,
                        "$difference" => fol::BinaryOperator::Subtract,
                        _ => fol::BinaryOperator::Multiply,
                    },
                    lhs: Box::new(self.int_term(&args[0], env)?),
                    rhs: Box::new(self.int_term(&args[1], env)?),
                }),
                (c, 0) => match self.den.placeholders.get(c) {
                    Some((n, fol::Sort::Integer)) => Ok(fol::IntegerTerm::FunctionConstant(n.clone())),
                    _ => Ok(fol::IntegerTerm::FunctionConstant(c.to_string())),
                },
                _ => Err(format!("integer term {t:?}")),
            },
        }
    }
    fn ty_of(&self, t: &TTerm, env: &Vec<(String, Ty)>) -> Option<Ty> {
        match t {
            TTerm::Num(_) => Some(Ty::Int),
            TTerm::Var(v) => env.iter().rev().find(|(n, _)| n == v).map(|(_, t)| t.clone()),
            TTerm::App(f, a) => {
                if f.starts_with('$') {
                    builtin(f).map(|s| s.res)
                } else {
                    self.decls.get(&(f.clone(), a.len())).map(|s| s.res.clone())
                }
            }
        }
    }
    pub fn gen_term(&self, t: &TTerm, env: &Vec<(String, Ty)>) -> Result<fol::GeneralTerm, String> {
        let ty = self.ty_of(t, env).ok_or_else(|| format!("untyped term {t:?}"))?;
        match ty {
            Ty::Int => Ok(fol::GeneralTerm::IntegerTerm(self.int_term(t, env)?)),
            Ty::Symbol => match t {
                TTerm::Var(v) => Ok(fol::GeneralTerm::SymbolicTerm(fol::SymbolicTerm::Variable(v.clone()))),
                TTerm::App(c, a) if a.is_empty() => match self.den.placeholders.get(c) {
                    Some((n, fol::Sort::Symbol)) => Ok(fol::GeneralTerm::SymbolicTerm(fol::SymbolicTerm::FunctionConstant(n.clone()))),
                    _ => Ok(fol::GeneralTerm::SymbolicTerm(fol::SymbolicTerm::Symbol(self.den.symbols.get(c).cloned().unwrap_or_else(|| c.clone())))),
                },
                _ => Err(format!("symbol term {t:?}")),
            },
            Ty::General => match t {
                TTerm::Var(v) => Ok(fol::GeneralTerm::Variable(v.clone())),
                TTerm::App(c, a) => match (c.as_str(), a.len()) {
                    ("c__infimum__", 0) => Ok(fol::GeneralTerm::Infimum),
                    ("c__supremum__", 0) => Ok(fol::GeneralTerm::Supremum),
                    ("f__integer__", 1) => Ok(fol::GeneralTerm::IntegerTerm(self.int_term(&a[0], env)?)),
                    ("f__symbolic__", 1) => match self.gen_term(&a[0], env)? {
                        g @ fol::GeneralTerm::SymbolicTerm(_) => Ok(g),
                        other => Err(format!("f__symbolic__ applied to {other:?}")),
                    },
                    (c, 0) => match self.den.placeholders.get(c) {
                        Some((n, fol::Sort::General)) => Ok(fol::GeneralTerm::FunctionConstant(n.clone())),
                        _ => Ok(fol::GeneralTerm::FunctionConstant(c.to_string())),
                    },
                    _ => Err(format!("general term {t:?}")),
                },
                _ => Err(format!("general term {t:?}")),
            },
            other => Err(format!("term of type {other:?}")),
        }
    }
    fn cmp(&self, rel: fol::Relation, a: &TTerm, b: &TTerm, env: &Vec<(String, Ty)>) -> Result<fol::Formula, String> {
        Ok(fol::Formula::AtomicFormula(fol::AtomicFormula::Comparison(fol::Comparison {
            term: self.gen_term(a, env)?,
            guards: vec![fol::Guard { relation: rel, term: self.gen_term(b, env)? }],
        })))
    }
    pub fn form(&self, f: &TForm, env: &mut Vec<(String, Ty)>) -> Result<fol::Formula, String> {
        use fol::Formula as F;
        Ok(match f {
            TForm::True => F::AtomicFormula(fol::AtomicFormula::Truth),
            TForm::False => F::AtomicFormula(fol::AtomicFormula::Falsity),
            TForm::Eq(a, b) => self.cmp(fol::Relation::Equal, a, b, env)?,
            TForm::Neq(a, b) => self.cmp(fol::Relation::NotEqual, a, b, env)?,
            TForm::Pred(p, args) => match (p.as_str(), args.len()) {
                ("$less", 2) | ("p__less__", 2) => self.cmp(fol::Relation::Less, &args[0], &args[1], env)?,
                ("$lesseq", 2) | ("p__less_equal__", 2) => self.cmp(fol::Relation::LessEqual, &args[0], &args[1], env)?,
                ("$greater", 2) | ("p__greater__", 2) => self.cmp(fol::Relation::Greater, &args[0], &args[1], env)?,
                ("$greatereq", 2) | ("p__greater_equal__", 2) => self.cmp(fol::Relation::GreaterEqual, &args[0], &args[1], env)?,
                ("p__is_integer__", 1) | ("p__is_symbolic__", 1) => {
                    let sort = if p == "p__is_integer__" { fol::Sort::Integer } else { fol::Sort::Symbol };
                    let w = "W__";
                    let wt = match sort {
                        fol::Sort::Integer => fol::GeneralTerm::IntegerTerm(fol::IntegerTerm::Variable(w.into())),
                        _ => fol::GeneralTerm::SymbolicTerm(fol::SymbolicTerm::Variable(w.into())),
                    };
                    F::QuantifiedFormula {
                        quantification: fol::Quantification { quantifier: fol::Quantifier::Exists, variables: vec![fol::Variable { name: w.into(), sort }] },
                        formula: Box::new(F::AtomicFormula(fol::AtomicFormula::Comparison(fol::Comparison {
                            term: self.gen_term(&args[0], env)?,
                            guards: vec![fol::Guard { relation: fol::Relation::Equal, term: wt }],
                        }))),
                    }
                }
                _ => {
                    let mut terms = vec![];
                    for a in args {
                        terms.push(self.gen_term(a, env)?);
                    }
                    F::AtomicFormula(fol::AtomicFormula::Atom(fol::Atom { predicate_symbol: p.clone(), terms }))
                }
            },
            TForm::Not(g) => F::UnaryFormula { connective: fol::UnaryConnective::Negation, formula: Box::new(self.form(g, env)?) },
            TForm::Bin(op, a, b) => F::BinaryFormula {
                connective: match *op {
                    "&" => fol::BinaryConnective::Conjunction,
                    "|" => fol::BinaryConnective::Disjunction,
                    "=>" => fol::BinaryConnective::Implication,
                    "<=" => fol::BinaryConnective::ReverseImplication,
                    "<=>" => fol::BinaryConnective::Equivalence,
                    o => return Err(format!("connective {o}")),
                },
                lhs: Box::new(self.form(a, env)?),
                rhs: Box::new(self.form(b, env)?),
            },
            TForm::Quant(forall, vars, g) => {
                let n = env.len();
                let mut vs = vec![];
                for (v, t) in vars {
                    let sort = sort_of(t).ok_or_else(|| format!("variable of type {t:?}"))?;
                    vs.push(fol::Variable { name: v.clone(), sort });
                    env.push((v.clone(), t.clone()));
                }
                let body = self.form(g, env);
                env.truncate(n);
                F::QuantifiedFormula {
                    quantification: fol::Quantification { quantifier: if *forall { fol::Quantifier::Forall } else { fol::Quantifier::Exists }, variables: vs },
                    formula: Box::new(body?),
                }
            }
        })
    }
}

/// Parse + check + translate a whole problem. Returns diagnostics and the translated formulas.
pub struct ReadProblem {
    pub diags: Vec<Diag>,
    pub formulas: Vec<(String, String, Result<fol::Formula, String>)>,
    pub decls: HashMap<(String, usize), Sig>,
}

pub fn read_problem(src: &str, den: &Denote) -> ReadProblem {
    let c = check(src);
    let tr = Tr { decls: &c.decls, den };
    let mut formulas = vec![];
    for e in &c.entries {
        if let Entry::Formula { name, role, formula } = e {
            formulas.push((name.clone(), role.clone(), tr.form(formula, &mut vec![])));
        }
    }
    ReadProblem { diags: c.diags, formulas, decls: c.decls }
}
