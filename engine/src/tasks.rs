//! Task alphabet (programs, user guides, specifications, proof outlines) and builders that
//! run the real task assembly of anthem.
use anthem::syntax_tree::asp::mini_gringo as asp;
use anthem::syntax_tree::fol::sigma_0 as fol;
use anthem::verif::{
    Decomposition, ExternalEquivalenceTask, FormulaRepresentation, Problem, StrongEquivalenceTask, Task,
};
use either::Either;

#[derive(Clone, Debug)]
pub struct Flags {
    pub dec: Decomposition,
    pub simplify: bool,
    pub eqb: bool,
}

impl Flags {
    pub fn name(&self) -> String {
        format!(
            "{},simplify={},eq-break={}",
            match self.dec {
                Decomposition::Independent => "independent",
                Decomposition::Sequential => "sequential",
            },
            self.simplify,
            self.eqb
        )
    }
}

pub fn all_flags() -> Vec<Flags> {
    let mut v = vec![];
    for dec in [Decomposition::Sequential, Decomposition::Independent] {
        for simplify in [true, false] {
            for eqb in [true, false] {
                v.push(Flags { dec, simplify, eqb });
            }
        }
    }
    v
}

#[derive(Clone, Debug)]
pub struct ExtTask {
    /// left side: program text or specification text
    pub left: String,
    pub left_is_spec: bool,
    pub right: String,
    pub ug: String,
    pub po: String,
}

impl ExtTask {
    pub fn describe(&self) -> serde_json::Value {
        serde_json::json!({"left": self.left, "left_is_spec": self.left_is_spec, "right": self.right, "user_guide": self.ug, "proof_outline": self.po})
    }
    pub fn key(&self) -> String {
        format!("{}{}|{}|{}|{}", if self.left_is_spec { "spec:" } else { "" }, self.left, self.right, self.ug, self.po)
    }
}

pub fn build_external(t: &ExtTask, f: &Flags, dir: fol::Direction, bypass: bool) -> Result<Vec<Problem>, String> {
    let specification = if t.left_is_spec {
        Either::Right(t.left.parse::<fol::Specification>().map_err(|e| format!("PARSE spec: {e}"))?)
    } else {
        Either::Left(t.left.parse::<asp::Program>().map_err(|e| format!("PARSE left: {e}"))?)
    };
    let task = ExternalEquivalenceTask {
        specification,
        program: t.right.parse().map_err(|e| format!("PARSE right: {e}"))?,
        user_guide: t.ug.parse().map_err(|e| format!("PARSE ug: {e}"))?,
        proof_outline: t.po.parse().map_err(|e| format!("PARSE po: {e}"))?,
        decomposition: f.dec,
        direction: dir,
        formula_representation: FormulaRepresentation::TauStar,
        bypass_tightness: bypass,
        simplify: f.simplify,
        break_equivalences: f.eqb,
    };
    match task.decompose() {
        Ok(w) => Ok(w.data),
        Err(e) => Err(format!("REFUSED: {}", e.to_string().lines().next().unwrap_or(""))),
    }
}

pub fn build_strong(left: &str, right: &str, f: &Flags, rep: FormulaRepresentation, dir: fol::Direction) -> Result<Vec<Problem>, String> {
    let task = StrongEquivalenceTask {
        left: left.parse().map_err(|e| format!("PARSE left: {e}"))?,
        right: right.parse().map_err(|e| format!("PARSE right: {e}"))?,
        decomposition: f.dec,
        direction: dir,
        formula_representation: rep,
        simplify: f.simplify,
        break_equivalences: f.eqb,
    };
    match task.decompose() {
        Ok(w) => Ok(w.data),
        Err(_) => Err("REFUSED".into()),
    }
}

/// programs over input in/1, outputs out/1 (out2/1), private aux, placeholder n
pub fn programs() -> Vec<&'static str> {
    vec![
        "out(X) :- in(X).",
        "out(X) :- in(X), not aux(X). aux(X) :- in(X), X > 1.",
        "aux(X) :- in(X). out(X) :- aux(X).",
        "out(X) :- in(X), X != a.",
        "{out(X)} :- in(X).",
        "out(X) :- in(X), X <= n.",
        "out(X) :- in(X). :- in(X), X > n.",
        "out(X) :- in(X), X = 1..n.",
        "out(X) :- in(X), not in(X+1).",
        "aux :- in(X), X > 1. out(X) :- in(X), not aux.",
        "{out(X)} :- in(X). :- in(X), not out(X).",
        "out(X) :- in(X), in(Y), X < Y.",
        "out(X) :- in(X), not not in(X).",
        "aux(X) :- in(X), not in(X+1). out(X) :- aux(X).",
        "out(X) :- in(X), X > 1. out(X) :- in(X), X <= 1.",
        "out(1) :- in(1). out(X) :- in(X), X != 1.",
        "out(X) :- in(X), not aux(X). aux(X) :- in(X), not in(X).",
        "out(X) :- in(X), X > 0.",
        "out(X) :- in(X), X >= 1.",
        "aux(X) :- in(X), X > 0. out(X) :- in(X), aux(X).",
        "out(X) :- in(X), not aux(X).",
        "aux. out(X) :- in(X), aux.",
        "out(X) :- in(X), not aux.",
        "out(X) :- in(X), X > 0, not aux(X). aux(X) :- in(X), X > 1.",
        "out(X) :- in(X), not in2(X).",
        "out(X) :- in(X), in2(X). out(X) :- in(X), not in2(X).",
    ]
}

pub fn user_guides() -> Vec<&'static str> {
    vec![
        "input: in/1. output: out/1.",
        "input: in/1. output: out/1. input: n -> integer.",
        "input: in/1. output: out/1. input: n.",
        "input: in/1. output: out/1. assumption: forall X (in(X) -> X > 0).",
        "input: in/1. output: out/1. input: n -> integer. assumption: forall X (in(X) -> X <= n).",
        "input: in/1. output: out/1. input: n -> symbol.",
        "input: in/1. input: in2/1. output: out/1.",
        "input: in/1. input: in2/1. output: out/1. assumption: forall X (in2(X) -> in(X)).",
    ]
}

pub fn specifications() -> Vec<&'static str> {
    vec![
        "spec: forall X (out(X) <-> in(X)).",
        "spec(forward): forall X (out(X) -> in(X)). spec(backward): forall X (in(X) -> out(X)).",
        "assumption: forall X (in(X) -> X > 0). spec: forall X (out(X) <-> in(X)).",
        "assumption(forward): forall X (in(X) -> X > 0). spec: forall X (out(X) <-> in(X) and X > 0).",
        "spec: forall X (out(X) <-> in(X) and X != a).",
        "spec: forall X (out(X) -> in(X)). spec: forall X (in(X) and X > 1 -> out(X)).",
        "spec: forall X (out(X) <-> in(X) and X <= n).",
        "spec(universal)[first]: forall X (out(X) -> in(X)). spec(forward)[second]: forall X (in(X) -> out(X)).",
        "spec: forall X (out(X) <-> in(X) and not exists Y$i (Y$i = X + 1 and in(Y$i))).",
        "spec: forall X (out(X) <-> in(X) and exists Y (in(Y) and X < Y)).",
        "spec: exists X (out(X) <-> in(X)).",
        "spec: forall X exists Y (out(X) <-> in(Y) and X = Y).",
        "spec: exists X (in(X) <-> not out(X)). spec: forall X (out(X) -> in(X)).",
    ]
}

pub fn ext_tasks(quick: bool) -> Vec<ExtTask> {
    let ps = programs();
    let ugs = user_guides();
    let mut out = vec![];
    for (i, l) in ps.iter().enumerate() {
        for (j, r) in ps.iter().enumerate() {
            for (k, ug) in ugs.iter().enumerate() {
                // placeholders only matter for programs mentioning n
                let uses_n = l.contains('n') && (l.contains(" n") || l.contains("..n")) || r.contains(" n") || r.contains("..n");
                if !uses_n && (k == 1 || k == 2 || k == 4 || k == 5) {
                    continue;
                }
                // the guides with a second input predicate: only where a side mentions it, plus a stride
                let uses_in2 = l.contains("in2") || r.contains("in2");
                if (k == 6 || k == 7) && !uses_in2 && (i + j) % 7 != 0 {
                    continue;
                }
                if uses_in2 && k < 6 {
                    continue;
                }
                if quick && !uses_in2 && (i + 2 * j + k) % 3 != 0 {
                    continue;
                }
                out.push(ExtTask { left: l.to_string(), left_is_spec: false, right: r.to_string(), ug: ug.to_string(), po: String::new() });
            }
        }
    }
    for (i, s) in specifications().iter().enumerate() {
        for (j, r) in ps.iter().enumerate() {
            for (k, ug) in ugs.iter().enumerate() {
                let uses_n = s.contains(" n") || r.contains(" n") || r.contains("..n");
                if !uses_n && (k == 1 || k == 2 || k == 4 || k == 5) {
                    continue;
                }
                let uses_in2 = r.contains("in2");
                if (k == 6 || k == 7) && !uses_in2 && (i + j) % 5 != 0 {
                    continue;
                }
                if uses_in2 && k < 6 {
                    continue;
                }
                if quick && (i + j + k) % 2 != 0 {
                    continue;
                }
                out.push(ExtTask { left: s.to_string(), left_is_spec: true, right: r.to_string(), ug: ug.to_string(), po: String::new() });
            }
        }
    }
    out
}

/// Identifier stress renamings (whole-word replacement of identifiers in all task texts).
pub fn stress_renamings() -> Vec<Vec<(&'static str, &'static str)>> {
    vec![
        vec![],
        vec![("in", "_in")],
        vec![("out", "_out"), ("aux", "_aux")],
        vec![("out", "out_i"), ("in", "in_g")],
        vec![("aux", "aux_s"), ("a", "a__s")],
        vec![("aux", "aux__s")],
        vec![("a", "aux")],
        vec![("a", "n_i")],
        vec![("a", "out")],
        vec![("in", "general"), ("out", "symbol")],
        vec![("aux", "f__integer__")],
        vec![("a", "c__infimum__")],
        vec![("out", "p__less__")],
        vec![("aux", "aux_p")],
        vec![("a", "a0"), ("n", "a")],
        vec![("in", "hp"), ("out", "tp")],
        vec![("a", "b")],
        vec![("in", "tff"), ("a", "type")],
        vec![("aux", "x__y"), ("a", "x__y__s")],
    ]
}

pub fn rename_words(text: &str, map: &[(&str, &str)]) -> String {
    if map.is_empty() {
        return text.to_string();
    }
    let cs: Vec<char> = text.chars().collect();
    let mut out = String::new();
    let mut i = 0;
    while i < cs.len() {
        let c = cs[i];
        if c.is_ascii_alphabetic() || c == '_' {
            let mut j = i;
            while j < cs.len() && (cs[j].is_ascii_alphanumeric() || cs[j] == '_') {
                j += 1;
            }
            let w: String = cs[i..j].iter().collect();
            // do not touch keywords of the input languages
            let kw = ["input", "output", "assumption", "spec", "lemma", "definition", "inductive", "forall", "exists", "not", "and", "or", "integer", "general", "symbol", "forward", "backward", "universal"];
            let prev_is_colon_kw = kw.contains(&w.as_str());
            match map.iter().find(|(a, _)| *a == w) {
                Some((_, b)) if !prev_is_colon_kw => out.push_str(b),
                _ => out.push_str(&w),
            }
            i = j;
        } else {
            out.push(c);
            i += 1;
        }
    }
    out
}

pub fn rename_task(t: &ExtTask, map: &[(&str, &str)]) -> ExtTask {
    ExtTask {
        left: rename_words(&t.left, map),
        left_is_spec: t.left_is_spec,
        right: rename_words(&t.right, map),
        ug: rename_words(&t.ug, map),
        po: rename_words(&t.po, map),
    }
}

/// hand-picked tasks for identifier clashes (symbols vs 0-ary predicates, mangled placeholders,
/// private predicates whose `_p` renaming collides)
pub fn special_ext_tasks() -> Vec<ExtTask> {
    let mk = |l: &str, spec: bool, r: &str, ug: &str, po: &str| ExtTask { left: l.to_string(), left_is_spec: spec, right: r.to_string(), ug: ug.to_string(), po: po.to_string() };
    vec![
        mk("out(X) :- in(X), X != a, X <= n.", false, "out(X) :- in(X), X <= n, X != a.", "input: in/1. output: out/1. input: n -> integer.", ""),
        mk("out(X) :- in(X), X != n_i, X <= n.", false, "out(X) :- in(X), X <= n, X != n_i.", "input: in/1. output: out/1. input: n -> integer.", ""),
        mk("out(X) :- in(X), X != n_g, X != n.", false, "out(X) :- in(X), X != n, X != n_g.", "input: in/1. output: out/1. input: n.", ""),
        mk("a :- in(X). out(X) :- in(X), X != a, not a.", false, "out(X) :- in(X), X != a, not aux. aux :- in(X).", "input: in/1. output: out/1.", ""),
        mk("a :- in(X). out(X) :- in(X), X != a, X != a0, not a.", false, "out(X) :- in(X), X != a0, X != a, not a. a :- in(X).", "input: in/1. output: out/1.", ""),
        mk("out(X) :- in(X), X != a, X != b, X != c.", false, "out(X) :- in(X), X != c, X != b, X != a.", "input: in/1. output: out/1.", ""),
        mk("aux(X) :- in(X). aux_p(X) :- aux(X). out(X) :- aux_p(X).", false, "aux(X) :- in(X), X > 1. out(X) :- in(X), not aux(X), X <= 1. out(X) :- aux(X).", "input: in/1. output: out/1.", ""),
        mk("aux(X) :- in(X), X > 1. out(X) :- in(X), not aux(X).", false, "aux(X) :- in(X), X <= 1. out(X) :- aux(X).", "input: in/1. output: out/1.", ""),
        mk("aux(X) :- in(X), X > 1. out(X) :- aux(X).", false, "aux(X,Y) :- in(X), in(Y). out(X) :- aux(X,X), X > 1.", "input: in/1. output: out/1.", ""),
        mk("out(X) :- in(X).", false, "out(X) :- in(X). out2(X) :- in(X), X > 5.", "input: in/1. output: out/1. output: out2/1.", ""),
        mk("spec: forall X (out(X) <-> in(X)).", true, "out(X) :- in(X).", "input: in/1. output: out/1. output: out2/1.", ""),
        mk("out(X) :- in(X), X != a.", false, "out(X) :- in(X), X != a.", "input: in/1. output: out/1.", "lemma: forall X (out(X) -> in(X)). lemma(forward): q_dummy -> q_dummy."),
        mk("a. out(a).", false, "out(a). a.", "output: a/0. output: out/1.", "lemma: out(a)."),
        mk("a. out(a). out(a0).", false, "out(a). out(a0). a.", "output: a/0. output: out/1.", "lemma: out(a) and out(a0)."),
        // propositional and binary public predicates, constraint-only differences
        mk("q :- r.", false, "q :- r, not aux.", "input: r/0. output: q/0.", ""),
        mk("q :- r, not aux. aux :- r, s.", false, "q :- r, not s.", "input: r/0. input: s/0. output: q/0.", ""),
        mk("out :- in(X).", false, "out :- in(X), not not in(X).", "input: in/1. output: out/0.", ""),
        mk("out :- in(X), X > 0.", false, "out :- in(X).", "input: in/1. output: out/0.", ""),
        mk("out(X,Y) :- in(X), in(Y), X < Y.", false, "out(X,Y) :- in(X), in(Y), not X >= Y.", "input: in/1. output: out/2.", ""),
        mk("out(X,Y) :- in(X), in(Y), X < Y.", false, "out(X,Y) :- in(X), in(Y), X != Y.", "input: in/1. output: out/2.", ""),
        mk(":- in(X), X > 1. out(X) :- in(X).", false, "out(X) :- in(X), X <= 1. :- in(X), not out(X).", "input: in/1. output: out/1.", ""),
        mk(":- in(X), X > 1. out(X) :- in(X).", false, "out(X) :- in(X).", "input: in/1. output: out/1.", ""),
        mk("spec(forward)[f1]: forall X (out(X) -> in(X)). spec(backward)[b1]: forall X (in(X) and X <= n -> out(X)). assumption[a1]: n > 0.", true, "out(X) :- in(X), X <= n.", "input: in/1. output: out/1. input: n -> integer.", ""),
        mk("spec: forall X (out(X) <-> in(X) and X <= n).", true, "out(X) :- in(X), X <= n.", "input: in/1. output: out/1. input: n.", ""),
        mk("spec: forall X Y (out(X,Y) <-> in(X) and in(Y) and X < Y).", true, "out(X,Y) :- in(X), in(Y), X < Y.", "input: in/1. output: out/2.", ""),
        mk("spec: out <-> exists X in(X).", true, "out :- in(X).", "input: in/1. output: out/0.", ""),
        // a symbol that clashes with a propositional predicate in every position of a comparison / atom
        mk("a :- in(X). out(X) :- in(X), a != X, not a.", false, "out(X) :- in(X), not a, a != X. a :- in(X).", "input: in/1. output: out/1.", ""),
        mk("a :- in(X). out(X) :- in(X), a < X, X <= a.", false, "out(X) :- in(X), X <= a, a < X. a :- in(X).", "input: in/1. output: out/1.", ""),
        mk("spec: forall X (out(X) <-> in(X) and a != X and X != a and not a). assumption: a <-> exists X in(X).", true, "a :- in(X). out(X) :- in(X), a != X, not a.", "input: in/1. output: out/1.", ""),
        mk("out(X) :- in(X), a != X.", false, "out(X) :- in(X), X != a.", "input: in/1. output: out/1. output: a/0.", "lemma: forall X (out(X) -> a != X)."),
        // predicates s and s__s next to symbols s, sZ, s0 (repeated clash renaming, ordering)
        mk("a :- in(a). a__s :- in(aZ). out(X) :- in(X), a, a__s.", false, "a__s :- in(aZ). a :- in(a). out(X) :- in(X), a__s, a.", "input: in/1. output: out/1.", ""),
        mk("a :- in(a), in(a0). a__s :- in(a_). out(X) :- in(X), not a, not a__s.", false, "out(X) :- in(X), not a__s, not a. a__s :- in(a_). a :- in(a0), in(a).", "input: in/1. output: out/1.", ""),
        // public propositional predicates defined by facts / choices / nothing
        mk("{p}. q :- p.", false, "p. q.", "output: p/0. output: q/0.", ""),
        mk("p. q.", false, "{p}. q :- p.", "output: p/0. output: q/0.", ""),
        mk("p.", false, "{p}.", "output: p/0.", ""),
        mk("p :- not q. q :- not p.", false, "{p}. q :- not p.", "output: p/0. output: q/0.", ""),
        mk("p. out(X) :- in(X), p.", false, "out(X) :- in(X).", "input: in/1. output: out/1. output: p/0.", ""),
        mk("spec: p. spec: q <-> p.", true, "p. q :- p.", "output: p/0. output: q/0.", ""),
        // a propositional predicate that clashes with a symbol but occurs in one conjecture only: the other
        // sub-problems of the decomposition contain the symbol without the predicate
        mk("spec: forall X (out(X) <-> in(X) and X != a and X != a0).", true, "out(X) :- in(X), X != a, X != a0. a :- in(a), not in(a0).", "input: in/1. output: out/1. output: a/0.", ""),
        mk("spec: forall X (out(X) <-> in(X) and X != a and X != a0). spec: a <-> in(a) and not in(a0).", true, "out(X) :- in(X), X != a, X != a0. a :- in(a), not in(a0).", "input: in/1. output: out/1. output: a/0.", ""),
        mk("spec: forall X (out(X) <-> in(X) and X != b and X != b_). spec: b <-> in(b_).", true, "out(X) :- in(X), X != b_, X != b. b :- in(b_).", "input: in/1. output: out/1. output: b/0.", ""),
        // quantifiers directly over chained comparisons, in every kind of user-written formula
        mk("spec: forall X (out(X) <-> in(X)). assumption: exists N$i (0 <= N$i <= n).", true, "out(X) :- in(X).", "input: in/1. output: out/1. input: n -> integer.", ""),
        mk("out(X) :- in(X), X <= n.", false, "out(X) :- in(X), not X > n.", "input: in/1. output: out/1. input: n -> integer. assumption: exists N$i (0 <= N$i <= n). assumption: not forall N$i M$i (0 < N$i < M$i < n).", "lemma: exists N$i (0 <= N$i <= n). lemma: forall X (out(X) -> exists N$i (N$i = X <= n))."),
        // a specification with an auxiliary (non-public) predicate of its own, clashing / not clashing with a private predicate of the program
        mk("spec: forall X (out(X) <-> in(X) and not aux(X)). spec: forall X (aux(X) <-> in(X) and X > 1).", true, "aux(X) :- in(X), X <= 1. out(X) :- aux(X).", "input: in/1. output: out/1.", ""),
        mk("spec: forall X (out(X) <-> in(X) and not aux(X)). spec: forall X (aux(X) <-> in(X) and X > 1).", true, "aux(X) :- in(X), X > 1. out(X) :- in(X), not aux(X).", "input: in/1. output: out/1.", ""),
        mk("spec: forall X (out(X) <-> in(X) and not aux(X)). spec: forall X (aux(X) <-> in(X) and X > 1).", true, "aux(X) :- in(X), X <= 0. out(X) :- in(X), not aux(X).", "input: in/1. output: out/1.", ""),
        mk("spec: forall X (out(X) <-> in(X) and not aux(X)). spec: forall X (aux(X) <-> in(X) and X > 1).", true, "out(X) :- in(X), X <= 1.", "input: in/1. output: out/1.", ""),
        // a placeholder that occurs only as an operand of an arithmetic term / interval (left, right, under unary minus)
        mk("out(X) :- in(X), X < n+1.", false, "out(X) :- in(X), n+1 > X.", "input: in/1. output: out/1. input: n -> integer.", ""),
        mk("out(X) :- in(X), X = 2*n.", false, "out(X) :- in(X), X = n*2.", "input: in/1. output: out/1. input: n -> integer.", ""),
        mk("out(X) :- in(X), X > -n.", false, "out(X) :- in(X), 0-n < X.", "input: in/1. output: out/1. input: n -> integer.", ""),
        mk("out(X) :- in(X), X = 1..n+1.", false, "out(X) :- in(X), X = 1..1+n.", "input: in/1. output: out/1. input: n -> integer.", ""),
        mk("out(n+1).", false, "out(1+n).", "output: out/1. input: n -> integer.", ""),
        mk("spec: forall X (out(X) <-> in(X) and X < n$i + m$i).", true, "out(X) :- in(X), X < n+m.", "input: in/1. output: out/1. input: n -> integer. input: m -> integer.", "lemma: forall X (out(X) -> X < m$i + n$i)."),
        // a symbolic constant named like a predicate of arity >= 1, with constants that sort between name and name__s
        mk("out(X) :- in(X), X != in, X != in0.", false, "out(X) :- in(X), X != in0, X != in.", "input: in/1. output: out/1.", ""),
        mk("out(X) :- in(X), X != out, X != out_, X != outZ.", false, "out(X) :- in(X), X != outZ, X != out_, X != out.", "input: in/1. output: out/1.", ""),
        mk("aux(X) :- in(X), X < aux0. out(X) :- aux(X), X != aux.", false, "out(X) :- in(X), X != aux, X < aux0.", "input: in/1. output: out/1.", ""),
        mk("spec: forall X (out(X) <-> in(X) and X != in and X != in1).", true, "out(X) :- in(X), X != in1, X != in.", "input: in/1. output: out/1.", ""),
        // programs that are not tight only through a choice rule (refused on a correct tree)
        mk("{p} :- q. q :- p.", false, "{p}. q :- p.", "output: p/0. output: q/0.", ""),
        mk("{out(X)} :- aux(X). aux(X) :- out(X), in(X).", false, "{out(X)} :- in(X), out(X).", "input: in/1. output: out/1.", ""),
        mk("spec: p <-> q.", true, "{p} :- q. q :- p.", "output: p/0. output: q/0.", ""),
        // a placeholder compared directly (=, !=) with a numeral, a symbol or another placeholder
        mk("p :- n = 0.", false, "p :- n = 0, n > 0.", "input: n -> integer. output: p/0.", ""),
        mk("p :- n != 0.", false, "p :- n > 0.", "input: n -> integer. output: p/0.", ""),
        mk("out(X) :- in(X), n = 1.", false, "out(X) :- in(X), n = 1, n != 2.", "input: in/1. output: out/1. input: n -> integer.", ""),
        mk("out(X) :- in(X), n != a.", false, "out(X) :- in(X).", "input: in/1. output: out/1. input: n.", ""),
        mk("out(X) :- in(X), n = m.", false, "out(X) :- in(X), m = n.", "input: in/1. output: out/1. input: n -> integer. input: m -> integer.", ""),
        mk("spec: p <-> n$i = 0.", true, "p :- n = 0.", "input: n -> integer. output: p/0.", ""),
        // proof outlines in which an inductive lemma (two obligations) is followed by further lemmas
        mk("out(X) :- in(X), X >= 0.", false, "out(X) :- in(X), X > -1.", "input: in/1. output: out/1.",
           "inductive-lemma(forward)[il]: forall N$i (N$i >= 0 -> (in(N$i) -> out(N$i))). lemma(forward)[l1]: forall X (out(X) -> in(X)). inductive-lemma(backward)[ib]: forall N$i (N$i >= 0 -> (in(N$i) -> out(N$i))). lemma(backward)[l2]: forall X (out(X) -> in(X)). lemma[l3]: forall X (out(X) -> X >= 0)."),
        // private cycles of mixed sign (refused on a correct tree)
        mk("a :- b. b :- not a. out(X) :- in(X), a.", false, "out(X) :- in(X).", "input: in/1. output: out/1.", ""),
        mk("out(X) :- in(X).", false, "aux(X) :- in(X), not aux2(X). aux2(X) :- aux(X). out(X) :- in(X), not aux2(X).", "input: in/1. output: out/1.", ""),
        mk("c :- not a. a :- b. b :- not a. p :- c.", false, "p.", "output: p/0.", ""),
        // a placeholder as an ARGUMENT OF AN ATOM in a specification, a user-guide assumption and a lemma
        mk("spec: out(n). spec: forall X (out(X) -> X = n).", true, "out(n).", "output: out/1. input: n -> integer.", ""),
        mk("spec: out(n). spec: forall X (out(X) -> X = n).", true, "out(n+1).", "output: out/1. input: n -> integer.", ""),
        mk("out(X) :- in(X), X != n.", false, "out(X) :- in(X), n != X.", "input: in/1. output: out/1. input: n. assumption: in(n).", "lemma: forall X (out(X) -> in(X) and not out(n))."),
        mk("spec: forall X (out(X) <-> in(X) and in(n$i + 1)).", true, "out(X) :- in(X), in(n+1).", "input: in/1. output: out/1. input: n -> integer.", ""),
        // constants whose numeric suffixes order differently from their byte order
        mk("out(X) :- in(X), X != a2, X != a10, X != a9.", false, "out(X) :- in(X), X != a9, X != a10, X != a2.", "input: in/1. output: out/1.", ""),
        mk("spec: forall X (out(X) <-> in(X) and X != v10 and X != v2).", true, "out(X) :- in(X), X != v2, X != v10.", "input: in/1. output: out/1.", ""),
        // deeply nested partial arithmetic (division inside division): several value variables of one stem in one formula
        mk("out(1/(1+((1+1)/X))) :- in(X).", false, "out(0) :- in(1).", "input: in/1. output: out/1.", ""),
        mk("out(X) :- in(X), 2/(1+(2/X)) = 1.", false, "out(2) :- in(2).", "input: in/1. output: out/1.", ""),
        // one symbol at several arities with different visibility (private/public/input), clashing private copies on both sides
        mk("q(X) :- in(X). q(X,X) :- q(X).", false, "q(X) :- in(X). q(X,X) :- q(X).", "input: in/1. output: q/2.", ""),
        mk("q(X) :- in(X), X > 0. q(X,X) :- q(X).", false, "q(X) :- in(X). q(X,X) :- q(X), X > 0.", "input: in/1. output: q/2.", ""),
        mk("q(X) :- in(X), X > 0. q(X,X) :- q(X).", false, "q(X) :- in(X). q(X,X) :- q(X).", "input: in/1. output: q/2.", ""),
        mk("q(X,X) :- in(X), X > 0. q(X) :- q(X,X).", false, "q(X,X) :- in(X). q(X) :- q(X,Y), Y > 0.", "input: in/1. output: q/1.", ""),
        mk("out :- in(X), X > 0. out(X) :- in(X), out.", false, "out :- in(X), not X <= 0. out(X) :- in(X), out.", "input: in/1. output: out/1.", ""),
        mk("out :- in(X). out(X) :- in(X), not out.", false, "out(X) :- in(X), X != X.", "input: in/1. output: out/1.", ""),
        mk("in(X,X) :- in(X). out(X) :- in(X,X).", false, "out(X) :- in(X). in(X,Y) :- in(X), in(Y).", "input: in/1. output: out/1.", ""),
        mk("spec: forall X (q(X,X) <-> in(X)). spec: forall X Y (q(X,Y) -> X = Y).", true, "q(X) :- in(X). q(X,X) :- q(X).", "input: in/1. output: q/2.", ""),
        mk("q(X) :- in(X). out(X) :- q(X).", false, "q(X) :- in(X). q :- q(X). out(X) :- q(X), q.", "input: in/1. output: out/1.", "lemma: forall X (q(X) -> in(X))."),
        // symbolic constants that occur ONLY in a later guard of a chained comparison (user guide, specification, lemma)
        mk("out(X) :- in(X).", false, "out(X) :- in(X), X = X.", "input: in/1. output: out/1. assumption: forall X (in(X) -> a < X < c).", ""),
        mk("spec: forall X (out(X) <-> in(X)). assumption: forall X (in(X) -> 1 <= X < c0 < d).", true, "out(X) :- in(X).", "input: in/1. output: out/1.", ""),
        mk("out(X) :- in(X).", false, "out(X) :- in(X), X = X.", "input: in/1. output: out/1.", "lemma: forall X (out(X) -> X < a0 <= e or not X < a0 or not a0 <= e)."),
        // a symbol that clashes with a 0-ary predicate, only in a later guard of a chained comparison
        mk("spec: forall X (out(X) <-> in(X) and a0 < X < a and not a). assumption: a <-> exists X in(X).", true, "a :- in(X). out(X) :- in(X), a0 < X, X < a, not a.", "input: in/1. output: out/1.", ""),
    ]
}

/// Grammar-generated programs over the vocabulary in/1, in2/1 (inputs), out/1, out0/0 (outputs),
/// aux/1, aux/0 (private), placeholder n: every head kind x every body condition, private
/// definitions used positively / negatively, facts, undefined private predicates.
pub fn gen_programs() -> Vec<String> {
    let conds = ["", ", X > 0", ", X != a", ", X <= n", ", not in(X+1)", ", not not in(X)", ", in2(X)", ", not in2(X)", ", X = 0..1"];
    let mut v: Vec<String> = vec![];
    for c in conds {
        v.push(format!("out(X) :- in(X){c}."));
        v.push(format!("{{out(X)}} :- in(X){c}."));
        v.push(format!("out0 :- in(X){c}."));
        v.push(format!("out(X) :- in(X). :- in(X){c}, X > 1."));
    }
    for c in &conds[0..6] {
        for use_ in ["out(X) :- aux(X).", "out(X) :- in(X), not aux(X).", "out(X) :- in(X), aux(X), X > 0."] {
            v.push(format!("aux(X) :- in(X){c}. {use_}"));
        }
        v.push(format!("aux :- in(X){c}. out(X) :- in(X), not aux."));
    }
    // several arithmetic terms sharing variables
    for f in ["out(X+Y) :- in(X), in(Y).", "out(X) :- in(X), in(Y+1), in2(X+Y).", "out0 :- in(W), in(X+1), in2(Y+W).", "out0 :- in(W), in(X+1), in2(X+W).", "out(X) :- in(X), in(X+1), not in2(Y+X), in2(Y)."] {
        v.push(f.to_string());
    }
    for f in ["out(1).", "out(0..1).", "out(a). out(X) :- in(X).", "out0.", "{out0}.", "out(X) :- in(X), not aux(X).", "out(X) :- in(X), aux.", "out0 :- not aux. out(X) :- in(X)."] {
        v.push(f.to_string());
    }
    v
}

pub fn guide_for(l: &str, r: &str, extra_declarations: bool) -> String {
    let both = format!("{l} {r}");
    let mut g = String::from("input: in/1. output: out/1.");
    if both.contains("in2") || extra_declarations {
        g.push_str(" input: in2/1.");
    }
    if both.contains("out0") || extra_declarations {
        g.push_str(" output: out0/0.");
    }
    if both.contains(" n.") || both.contains(" n,") || both.contains("..n") {
        g.push_str(" input: n -> integer.");
    }
    g
}

pub fn gen_ext_tasks(quick: bool) -> Vec<ExtTask> {
    let ps = gen_programs();
    let mut out = vec![];
    for (i, l) in ps.iter().enumerate() {
        for (j, r) in ps.iter().enumerate() {
            if quick && (i * 5 + j) % 2 != 0 {
                continue;
            }
            out.push(ExtTask { left: l.clone(), left_is_spec: false, right: r.clone(), ug: guide_for(l, r, false), po: String::new() });
            if (i + j) % 11 == 0 {
                out.push(ExtTask { left: l.clone(), left_is_spec: false, right: r.clone(), ug: guide_for(l, r, true), po: String::new() });
            }
        }
    }
    out
}

/// Grammar-generated specifications: quantifier prefix x body shape x direction annotation,
/// single formulas and forward/backward pairs, with and without an assumption.
pub fn gen_specs() -> Vec<String> {
    let bodies = [
        "out(X) <-> in(X)", "out(X) -> in(X)", "in(X) -> out(X)", "out(X) <-> in(X) and X > 0", "out(X) or not in(X)", "not (out(X) and not in(X))",
        "out(X) <-> in(X) and X != a", "in(X) and X > 1 -> out(X)", "out(X) <- in(X) and not in(X+1)",
        // a quantifier directly over a chained comparison (one atomic formula, rendered as a conjunction)
        "0 <= X <= 2",
    ];
    let mut v = vec![];
    for pre in ["forall X", "exists X"] {
        for b in bodies {
            for d in ["", "(forward)", "(backward)"] {
                v.push(format!("spec{d}: {pre} ({b})."));
            }
        }
    }
    for b in bodies {
        v.push(format!("spec(forward): forall X ({b}). spec(backward): forall X (out(X) <-> in(X))."));
        v.push(format!("assumption: forall X (in(X) -> X > 0). spec: forall X ({b})."));
        v.push(format!("assumption(forward): exists X (in(X) and X > 0). spec: forall X ({b})."));
        v.push(format!("assumption(backward): forall X (in(X) -> X > 0). spec: forall X ({b})."));
    }
    v
}

pub fn gen_spec_tasks(quick: bool) -> Vec<ExtTask> {
    let specs = gen_specs();
    let ps = gen_programs();
    let mut out = vec![];
    for (i, sp) in specs.iter().enumerate() {
        for (j, r) in ps.iter().enumerate() {
            if r.contains("out0") || r.contains("in2") {
                continue;
            }
            if quick && (i + j) % 4 != 0 {
                continue;
            }
            out.push(ExtTask { left: sp.clone(), left_is_spec: true, right: r.clone(), ug: guide_for("", r, false), po: String::new() });
        }
    }
    out
}
