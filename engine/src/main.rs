mod c01;
mod c02;
mod c03;
mod c04;
mod c05;
mod c06;
mod c07;
mod c09;
mod c11;
mod c13;
mod c14;
mod c16;
mod c17;
mod enum_fol;
mod dom;
mod enum_asp;
mod ground;
mod prob;
mod refsem;
mod report;
mod sem;
mod tasks;
mod tff;
mod tt;

use report::Run;

fn usage() -> ! {
    eprintln!("usage: vcheck <C01..C20> [--tier quick|thorough] [--replay <file>]");
    std::process::exit(2)
}

fn main() {
    let args: Vec<String> = std::env::args().collect();
    if args.len() < 2 {
        usage();
    }
    let id = args[1].clone();
    let mut tier = std::env::var("VERIF_TIER").unwrap_or_else(|_| "quick".into());
    let mut replay: Option<String> = None;
    let mut i = 2;
    while i < args.len() {
        match args[i].as_str() {
            "--tier" => {
                tier = args.get(i + 1).cloned().unwrap_or_else(|| usage());
                i += 2;
            }
            "--replay" => {
                replay = Some(args.get(i + 1).cloned().unwrap_or_else(|| usage()));
                i += 2;
            }
            _ => usage(),
        }
    }
    if tier != "quick" && tier != "thorough" {
        usage();
    }
    // panics inside explorers are caught per state; keep the default hook quiet
    report::install_panic_hook();
    if let Some(path) = replay {
        // a replayed hang must end too
        std::thread::spawn(|| {
            let limit = std::env::var("VERIF_HANG_LIMIT").ok().and_then(|s| s.parse().ok()).unwrap_or(30u64);
            std::thread::sleep(std::time::Duration::from_secs(limit));
            println!("replay: the call did not return within {limit} s (hang reproduced)");
            std::process::exit(1);
        });
        let text = std::fs::read_to_string(&path).expect("cannot read replay file");
        let v: serde_json::Value = serde_json::from_str(&text).expect("replay file is not JSON");
        let code = match id.as_str() {
            "C01" => c01::replay(c01::Mode::C01, &v),
            "C08" => c01::replay(c01::Mode::C08, &v),
            "C07" => c07::replay(c07::Mode::C07, &v),
            "C05" => c05::replay(&v),
            "C09" => c09::replay(c09::Mode::C09, &v),
            "C12" => c09::replay(c09::Mode::C12, &v),
            "C14" => c14::replay(c14::Mode::C14, &v),
            "C15" => c14::replay(c14::Mode::C15, &v),
            "C16" => c16::replay(&v),
            "C11" => c11::replay(&v),
            "C13" => c13::replay(&v),
            "C06" => c06::replay(&v),
            "C04" => c04::replay(&v),
            "C03" => c03::replay(&v),
            "C02" => c02::replay(c02::Mode::C02, &v),
            "C19" => c02::replay(c02::Mode::C19, &v),
            "C17" => c17::replay(&v),
            "C18" => c07::replay(c07::Mode::C18, &v),
            _ => {
                eprintln!("no replay for {id}");
                2
            }
        };
        std::process::exit(code);
    }
    let run: &'static Run = Box::leak(Box::new(Run::new(&id, &tier)));
    report::start_watchdog(run);
    let outcome = std::panic::catch_unwind(std::panic::AssertUnwindSafe(|| match id.as_str() {
        "C01" => c01::run(c01::Mode::C01, &run),
        "C08" => c01::run(c01::Mode::C08, &run),
        "C07" => c07::run(c07::Mode::C07, &run),
        "C05" => c05::run(&run),
        "C16" => c16::run(&run),
        "C14" => c14::run(c14::Mode::C14, &run),
        "C15" => c14::run(c14::Mode::C15, &run),
        "C13" => c13::run(&run),
        "C11" => c11::run(&run),
        "C09" => c09::run(c09::Mode::C09, &run),
        "C12" => c09::run(c09::Mode::C12, &run),
        "C06" => c06::run(&run),
        "C04" => c04::run(&run),
        "C03" => c03::run(&run),
        "C02" => c02::run(c02::Mode::C02, &run),
        "C19" => c02::run(c02::Mode::C19, &run),
        "C17" => c17::run(&run),
        "C18" => c07::run(c07::Mode::C18, &run),
        _ => {
            eprintln!("unknown property {id}");
            std::process::exit(2)
        }
    }));
    if outcome.is_err() {
        // a panic outside the per-state guards is a failure of the machinery, never a verdict
        let (loc, msg) = report::LAST_PANIC_ANY_THREAD.lock().map(|g| g.clone()).unwrap_or_default();
        eprintln!("MACHINERY-ERROR [{id}]: uncaught panic at {loc}: {msg}");
        std::process::exit(2);
    }
    std::process::exit(run.finish());
}
