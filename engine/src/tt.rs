//! Bit-parallel truth tables over all interpretations.
//!
//! A `Space` has `nvars` boolean variables; a table has one bit per assignment (index).
//! Classical use: variable i = atom i.  HT use over n atoms: index = h | (t << n), variable
//! i (< n) is "atom i in H", variable n+i is "atom i in T"; only indices with h subset-of t
//! are meaningful (`valid`).
use crate::dom::P;

pub type Table = Vec<u64>;

pub struct Space {
    pub nvars: usize,
    pub words: usize,
    pub bits: u64,
    proj: Vec<Table>,
    pub full: Table,
}

const PAT: [u64; 6] = [
    0xAAAA_AAAA_AAAA_AAAA,
    0xCCCC_CCCC_CCCC_CCCC,
    0xF0F0_F0F0_F0F0_F0F0,
    0xFF00_FF00_FF00_FF00,
    0xFFFF_0000_FFFF_0000,
    0xFFFF_FFFF_0000_0000,
];

impl Space {
    pub fn new(nvars: usize) -> Space {
        assert!(nvars <= 24, "space too large: {nvars} variables");
        let bits: u64 = 1u64 << nvars;
        let words = std::cmp::max(1, (bits / 64) as usize);
        let lastmask: u64 = if bits >= 64 { !0 } else { (1u64 << bits) - 1 };
        let mut full = vec![!0u64; words];
        full[words - 1] &= lastmask;
        let mut proj = Vec::with_capacity(nvars);
        for k in 0..nvars {
            let mut t = vec![0u64; words];
            for (w, slot) in t.iter_mut().enumerate() {
                *slot = if k < 6 {
                    PAT[k]
                } else if (w >> (k - 6)) & 1 == 1 {
                    !0
                } else {
                    0
                };
            }
            t[words - 1] &= lastmask;
            proj.push(t);
        }
        Space {
            nvars,
            words,
            bits,
            proj,
            full,
        }
    }
    pub fn var(&self, k: usize) -> &Table {
        &self.proj[k]
    }
    pub fn zero(&self) -> Table {
        vec![0; self.words]
    }
    pub fn not(&self, a: &Table) -> Table {
        a.iter().zip(self.full.iter()).map(|(x, f)| !x & f).collect()
    }
    pub fn count(&self, a: &Table) -> u64 {
        a.iter().map(|w| w.count_ones() as u64).sum()
    }
    pub fn first_set(&self, a: &Table) -> Option<u64> {
        for (i, w) in a.iter().enumerate() {
            if *w != 0 {
                return Some(i as u64 * 64 + w.trailing_zeros() as u64);
            }
        }
        None
    }
    pub fn get(&self, a: &Table, idx: u64) -> bool {
        (a[(idx / 64) as usize] >> (idx % 64)) & 1 == 1
    }
    /// Classical table of `p` (variable i = atom i).
    pub fn cl(&self, p: &P) -> Table {
        match p {
            P::T => self.full.clone(),
            P::F => self.zero(),
            P::Atom(i) => self.proj[*i].clone(),
            P::Not(a) => {
                let t = self.cl(a);
                self.not(&t)
            }
            P::And(v) => {
                let mut acc = self.full.clone();
                for x in v {
                    let t = self.cl(x);
                    and_into(&mut acc, &t);
                }
                acc
            }
            P::Or(v) => {
                let mut acc = self.zero();
                for x in v {
                    let t = self.cl(x);
                    or_into(&mut acc, &t);
                }
                acc
            }
            P::Imp(a, b) => {
                let ta = self.cl(a);
                let mut r = self.not(&ta);
                let tb = self.cl(b);
                or_into(&mut r, &tb);
                r
            }
        }
    }
}

pub fn and_into(acc: &mut Table, t: &Table) {
    for (a, b) in acc.iter_mut().zip(t.iter()) {
        *a &= *b;
    }
}
pub fn or_into(acc: &mut Table, t: &Table) {
    for (a, b) in acc.iter_mut().zip(t.iter()) {
        *a |= *b;
    }
}
pub fn xor(a: &Table, b: &Table) -> Table {
    a.iter().zip(b.iter()).map(|(x, y)| x ^ y).collect()
}
pub fn and(a: &Table, b: &Table) -> Table {
    a.iter().zip(b.iter()).map(|(x, y)| x & y).collect()
}

/// HT space over n atoms. Atoms in `fixed` (input atoms) have the same value in H and T and
/// are represented by a single variable; every other atom i has a here-variable and a
/// there-variable.
pub struct HtSpace {
    pub n: usize,
    pub sp: Space,
    pub hvar: Vec<usize>,
    pub tvar: Vec<usize>,
    pub fixed: u64,
    /// indices with h subset-of t
    pub valid: Table,
    /// indices with h == t (total interpretations)
    pub total: Table,
}

impl HtSpace {
    pub fn new(n: usize) -> HtSpace {
        HtSpace::with_fixed(n, 0)
    }
    pub fn with_fixed(n: usize, fixed: u64) -> HtSpace {
        // layout: variable i (< n) is the here-variable of atom i; there-variables of the
        // non-fixed atoms follow; a fixed atom's there-variable is its here-variable.
        // With fixed == 0 the index is h | (t << n).
        let mut hvar = vec![];
        let mut tvar = vec![];
        let mut next = n;
        for i in 0..n {
            hvar.push(i);
            if (fixed >> i) & 1 == 1 {
                tvar.push(i);
            } else {
                tvar.push(next);
                next += 1;
            }
        }
        let sp = Space::new(next);
        let mut valid = sp.full.clone();
        let mut total = sp.full.clone();
        for i in 0..n {
            if hvar[i] == tvar[i] {
                continue;
            }
            let mut imp = sp.not(sp.var(hvar[i]));
            or_into(&mut imp, sp.var(tvar[i]));
            and_into(&mut valid, &imp);
            let x = xor(sp.var(hvar[i]), sp.var(tvar[i]));
            let nx = sp.not(&x);
            and_into(&mut total, &nx);
        }
        HtSpace { n, sp, hvar, tvar, fixed, valid, total }
    }
    /// index of the pair (h, t) (h and t must agree on the fixed atoms)
    pub fn index(&self, h: u64, t: u64) -> u64 {
        let mut idx = 0u64;
        for i in 0..self.n {
            if (h >> i) & 1 == 1 {
                idx |= 1 << self.hvar[i];
            }
            if (t >> i) & 1 == 1 {
                idx |= 1 << self.tvar[i];
            }
        }
        idx
    }
    /// (here, there) tables of `p`.
    pub fn ht(&self, p: &P) -> (Table, Table) {
        let sp = &self.sp;
        match p {
            P::T => (sp.full.clone(), sp.full.clone()),
            P::F => (sp.zero(), sp.zero()),
            P::Atom(i) => (sp.var(self.hvar[*i]).clone(), sp.var(self.tvar[*i]).clone()),
            P::Not(a) => {
                let (_, t) = self.ht(a);
                let x = sp.not(&t);
                (x.clone(), x)
            }
            P::And(v) => {
                let mut h = sp.full.clone();
                let mut t = sp.full.clone();
                for x in v {
                    let (xh, xt) = self.ht(x);
                    and_into(&mut h, &xh);
                    and_into(&mut t, &xt);
                }
                (h, t)
            }
            P::Or(v) => {
                let mut h = sp.zero();
                let mut t = sp.zero();
                for x in v {
                    let (xh, xt) = self.ht(x);
                    or_into(&mut h, &xh);
                    or_into(&mut t, &xt);
                }
                (h, t)
            }
            P::Imp(a, b) => {
                let (ah, at) = self.ht(a);
                let (bh, bt) = self.ht(b);
                let mut t = sp.not(&at);
                or_into(&mut t, &bt);
                let mut h = sp.not(&ah);
                or_into(&mut h, &bh);
                and_into(&mut h, &t);
                (h, t)
            }
        }
    }
    /// HT-satisfaction table (here-world), restricted to valid pairs.
    pub fn sat(&self, p: &P) -> Table {
        let (mut h, _) = self.ht(p);
        and_into(&mut h, &self.valid);
        h
    }
    /// (h, t) of an index (only meaningful for fixed == 0 layouts or via hvar/tvar)
    pub fn split(&self, idx: u64) -> (u64, u64) {
        let mut h = 0u64;
        let mut t = 0u64;
        for i in 0..self.n {
            if (idx >> self.hvar[i]) & 1 == 1 {
                h |= 1 << i;
            }
            if (idx >> self.tvar[i]) & 1 == 1 {
                t |= 1 << i;
            }
        }
        (h, t)
    }
    pub fn nvalid(&self) -> u64 {
        self.sp.count(&self.valid)
    }
}
