//! Shared set-up helpers for the semantic explorers.
use crate::dom::*;
use crate::tt::*;
use serde_json::{json, Value};

pub const SPARE_LO: &str = "_a";
pub const SPARE_HI: &str = "zz";

/// Choose the richest active set whose universe stays within `limit` atoms.
pub fn choose_active(preds: &[(String, usize)], limit: usize, syms: &[String], rich: bool) -> Vec<Val> {
    let s0 = syms.first().cloned().unwrap_or_else(|| "a".to_string());
    let mut cands: Vec<Vec<Val>> = vec![];
    if rich {
        cands.push(vec![
            Val::Int(-1),
            Val::Int(0),
            Val::Int(1),
            Val::Int(2),
            Val::Sym(s0.clone()),
            Val::Inf,
        ]);
        cands.push(vec![
            Val::Int(-1),
            Val::Int(0),
            Val::Int(1),
            Val::Int(2),
            Val::Sym(s0.clone()),
        ]);
    }
    cands.push(vec![
        Val::Int(0),
        Val::Int(1),
        Val::Int(2),
        Val::Sym(s0.clone()),
    ]);
    cands.push(vec![Val::Int(0), Val::Int(1), Val::Sym(s0.clone())]);
    cands.push(vec![Val::Int(1), Val::Sym(s0.clone())]);
    cands.push(vec![Val::Int(1)]);
    for c in cands {
        let n: usize = preds.iter().map(|(_, a)| c.len().pow(*a as u32)).sum();
        if n <= limit {
            return c;
        }
    }
    vec![]
}

pub fn slice_for(w: i128, syms: &[String]) -> Slice {
    let mut s: Vec<String> = syms.to_vec();
    s.push(SPARE_LO.to_string());
    s.push(SPARE_HI.to_string());
    s.sort();
    s.dedup();
    Slice { w, syms: s }
}

/// first valid (h subset-of t) index where two HT satisfaction tables differ
pub fn ht_diff(hs: &HtSpace, a: &P, b: &P) -> Option<u64> {
    let ta = hs.sat(a);
    let tb = hs.sat(b);
    let d = xor(&ta, &tb);
    hs.sp.first_set(&d)
}

pub fn describe_ht(hs: &HtSpace, u: &Universe, idx: u64) -> Value {
    let (h, t) = hs.split(idx);
    json!({"H": u.set_names(h), "T": u.set_names(t)})
}

pub fn describe_cl(u: &Universe, idx: u64) -> Value {
    json!({"true_atoms": u.set_names(idx)})
}

/// Conformance partner: compare the bit-parallel HT table with the naive evaluator on
/// every valid interpretation. Returns number of interpretations compared, or an error.
pub fn conform_ht(hs: &HtSpace, p: &P) -> Result<u64, String> {
    let sat = hs.sat(p);
    let n = hs.n;
    let mut cnt = 0;
    for t in 0u64..(1 << n) {
        let mut h = t;
        loop {
            let idx = hs.index(h, t);
            let naive = p.ht(h, t, true);
            if naive != hs.sp.get(&sat, idx) {
                return Err(format!(
                    "truth-table/naive disagreement at h={h:b} t={t:b} on {p:?}"
                ));
            }
            cnt += 1;
            if h == 0 {
                break;
            }
            h = (h - 1) & t;
        }
    }
    Ok(cnt)
}

pub fn conform_cl(sp: &Space, p: &P) -> Result<u64, String> {
    let tab = sp.cl(p);
    for m in 0u64..sp.bits {
        if p.cl(m) != sp.get(&tab, m) {
            return Err(format!("classical table/naive disagreement at {m:b} on {p:?}"));
        }
    }
    Ok(sp.bits)
}
