//! Grounder: target-language formula -> propositional formula over the atoms of U.
//! Quantifiers are expanded over exact candidate sets where the conjunctive/existential
//! skeleton of the scope determines the variable (DESIGN 2.2), else over a window.
use crate::dom::*;
use anthem::syntax_tree::fol::sigma_0 as fol;
use fol::{Formula as F, GeneralTerm as GT, IntegerTerm as IT, Sort, SymbolicTerm as ST};
use std::collections::{BTreeSet, HashMap};

pub type Key = (String, Sort);

#[derive(Clone, Debug)]
enum X {
    K(Val),
    V(usize),
    Neg(Box<X>),
    Bin(fol::BinaryOperator, Box<X>, Box<X>),
}

#[derive(Clone, Debug)]
struct Con {
    rel: fol::Relation,
    a: X,
    b: X,
}

#[derive(Default, Clone, Debug)]
pub struct Stats {
    pub solved: u64,
    pub enumerated: u64,
    pub solver_cap: u64,
    pub audited: u64,
}

pub struct G<'a> {
    pub u: &'a Universe,
    pub outer: Slice,
    pub inner: Slice,
    pub env: Vec<(Key, Val)>,
    pub consts: HashMap<Key, Val>,
    /// input symbols that stand for placeholders (value overrides)
    pub sym_override: HashMap<String, Val>,
    /// names of variables preferred for window enumeration (the rule's own variables)
    pub prefer: Vec<String>,
    pub stats: Stats,
    /// when set, every solved expansion is audited against this many extra candidates
    pub audit: bool,
    pub audit_failures: Vec<String>,
    /// largest absolute integer bound to any variable
    pub maxabs: i128,
    depth: usize,
    /// disable skeleton solving entirely (used by the audit / conformance partner)
    pub no_solve: bool,
    /// remaining quantifier-expansion steps; exhausting it aborts the state (reported as cap_hit)
    pub budget: u64,
}

pub fn sort_ok(s: Sort, v: &Val) -> bool {
    match s {
        Sort::General => true,
        Sort::Integer => v.is_int(),
        Sort::Symbol => v.is_sym(),
    }
}

pub fn cmp(r: fol::Relation, a: &Val, b: &Val) -> bool {
    use fol::Relation::*;
    match r {
        Equal => a == b,
        NotEqual => a != b,
        Less => a < b,
        LessEqual => a <= b,
        Greater => a > b,
        GreaterEqual => a >= b,
    }
}

const BRANCH_CAP: usize = 20000;

impl<'a> G<'a> {
    pub fn new(u: &'a Universe, outer: Slice, inner: Slice) -> Self {
        G {
            u,
            outer,
            inner,
            env: vec![],
            consts: HashMap::new(),
            sym_override: HashMap::new(),
            prefer: vec![],
            stats: Stats::default(),
            audit: false,
            audit_failures: vec![],
            maxabs: 0,
            depth: 0,
            no_solve: false,
            budget: 30_000_000,
        }
    }
    pub fn bind(&mut self, name: &str, sort: Sort, v: Val) {
        self.env.push(((name.to_string(), sort), v));
    }
    fn lookup(&self, k: &Key) -> Option<&Val> {
        self.env.iter().rev().find(|(kk, _)| kk == k).map(|(_, v)| v)
    }
    fn konst(&self, name: &str, sort: Sort) -> Val {
        self.consts
            .get(&(name.to_string(), sort))
            .unwrap_or_else(|| panic!("no value for function constant {name} of sort {sort:?}"))
            .clone()
    }
    pub fn int(&self, t: &IT) -> i128 {
        match t {
            IT::Numeral(n) => *n as i128,
            IT::FunctionConstant(c) => match self.konst(c, Sort::Integer) {
                Val::Int(i) => i,
                _ => panic!("integer constant with non-integer value"),
            },
            IT::Variable(v) => match self
                .lookup(&(v.clone(), Sort::Integer))
                .unwrap_or_else(|| panic!("unbound {v}$i"))
            {
                Val::Int(i) => *i,
                _ => panic!("integer variable with non-integer value"),
            },
            IT::UnaryOperation { arg, .. } => -self.int(arg),
            IT::BinaryOperation { op, lhs, rhs } => {
                let (a, b) = (self.int(lhs), self.int(rhs));
                match op {
                    fol::BinaryOperator::Add => a + b,
                    fol::BinaryOperator::Subtract => a - b,
                    fol::BinaryOperator::Multiply => a * b,
                }
            }
        }
    }
    pub fn gen(&self, t: &GT) -> Val {
        match t {
            GT::Infimum => Val::Inf,
            GT::Supremum => Val::Sup,
            GT::FunctionConstant(c) => self.konst(c, Sort::General),
            GT::Variable(v) => self
                .lookup(&(v.clone(), Sort::General))
                .unwrap_or_else(|| panic!("unbound {v}"))
                .clone(),
            GT::IntegerTerm(t) => Val::Int(self.int(t)),
            GT::SymbolicTerm(ST::Symbol(s)) => match self.sym_override.get(s) {
                Some(v) => v.clone(),
                None => Val::Sym(s.clone()),
            },
            GT::SymbolicTerm(ST::FunctionConstant(c)) => self.konst(c, Sort::Symbol),
            GT::SymbolicTerm(ST::Variable(v)) => self
                .lookup(&(v.clone(), Sort::Symbol))
                .unwrap_or_else(|| panic!("unbound {v}$s"))
                .clone(),
        }
    }
    pub fn ground(&mut self, f: &F) -> P {
        match f {
            F::AtomicFormula(fol::AtomicFormula::Truth) => P::T,
            F::AtomicFormula(fol::AtomicFormula::Falsity) => P::F,
            F::AtomicFormula(fol::AtomicFormula::Atom(a)) => {
                let args: Vec<Val> = a.terms.iter().map(|t| self.gen(t)).collect();
                self.u.atom(&a.predicate_symbol, &args)
            }
            F::AtomicFormula(fol::AtomicFormula::Comparison(c)) => {
                if c.individuals()
                    .all(|(l, r, rr)| cmp(*r, &self.gen(l), &self.gen(rr)))
                {
                    P::T
                } else {
                    P::F
                }
            }
            F::UnaryFormula { formula, .. } => P::not(self.ground(formula)),
            F::BinaryFormula {
                connective,
                lhs,
                rhs,
            } => {
                use fol::BinaryConnective::*;
                let a = self.ground(lhs);
                // short-circuits that cannot change the result
                match (connective, &a) {
                    (Conjunction, P::F) => return P::F,
                    (Disjunction, P::T) => return P::T,
                    (Implication, P::F) => return P::T,
                    _ => {}
                }
                let b = self.ground(rhs);
                match connective {
                    Conjunction => P::and(vec![a, b]),
                    Disjunction => P::or(vec![a, b]),
                    Implication => P::imp(a, b),
                    ReverseImplication => P::imp(b, a),
                    Equivalence => P::iff(a, b),
                }
            }
            F::QuantifiedFormula {
                quantification,
                formula,
            } => {
                let mut vars: Vec<fol::Variable> = vec![];
                for v in &quantification.variables {
                    if !vars.contains(v) {
                        vars.push(v.clone());
                    }
                }
                self.depth += 1;
                let ex = matches!(quantification.quantifier, fol::Quantifier::Exists);
                let r = self.expand(ex, &vars, formula);
                self.depth -= 1;
                r
            }
        }
    }

    fn note(&mut self, v: &Val) {
        if let Val::Int(i) = v {
            if i.abs() > self.maxabs {
                self.maxabs = i.abs();
            }
        }
    }

    fn domain(&self, sort: Sort) -> Vec<Val> {
        let sl = if self.depth <= 1 {
            &self.outer
        } else {
            &self.inner
        };
        match sort {
            Sort::General => sl.general(),
            Sort::Integer => sl.ints(),
            Sort::Symbol => sl.symbols(),
        }
    }

    fn expand(&mut self, ex: bool, vars: &[fol::Variable], body: &F) -> P {
        if self.budget == 0 {
            panic!("GROUND_BUDGET exhausted");
        }
        self.budget -= 1;
        if vars.is_empty() {
            return self.ground(body);
        }
        if !self.no_solve {
            for i in 0..vars.len() {
                let others: Vec<fol::Variable> = vars
                    .iter()
                    .enumerate()
                    .filter(|(j, _)| *j != i)
                    .map(|(_, v)| v.clone())
                    .collect();
                if let Some(cands) = self.candidates(&vars[i], &others, body, ex) {
                    self.stats.solved += 1;
                    if self.audit {
                        self.audit_solved(ex, &vars[i], &others, body, &cands);
                    }
                    let mut rs = vec![];
                    for c in cands {
                        self.note(&c);
                        self.env.push(((vars[i].name.clone(), vars[i].sort), c));
                        let r = self.expand(ex, &others, body);
                        self.env.pop();
                        match (&r, ex) {
                            (P::T, true) => return P::T,
                            (P::F, false) => return P::F,
                            _ => {}
                        }
                        rs.push(r);
                    }
                    return if ex { P::or(rs) } else { P::and(rs) };
                }
            }
        }
        // nothing solvable: enumerate one variable over the window
        let pick = self.pick(vars, body, ex);
        let v = vars[pick].clone();
        let rest: Vec<fol::Variable> = vars
            .iter()
            .enumerate()
            .filter(|(j, _)| *j != pick)
            .map(|(_, x)| x.clone())
            .collect();
        let cands = self.domain(v.sort);
        self.stats.enumerated += 1;
        let mut rs = vec![];
        for c in cands {
            self.env.push(((v.name.clone(), v.sort), c));
            let r = self.expand(ex, &rest, body);
            self.env.pop();
            match (&r, ex) {
                (P::T, true) => return P::T,
                (P::F, false) => return P::F,
                _ => {}
            }
            rs.push(r);
        }
        if ex {
            P::or(rs)
        } else {
            P::and(rs)
        }
    }

    /// which variable of the block to enumerate when none is determined
    fn pick(&self, vars: &[fol::Variable], body: &F, ex: bool) -> usize {
        if vars.len() == 1 {
            return 0;
        }
        // variables that are the bare side of an equality with a compound other side are
        // "defined" and should be enumerated last
        let skel = Self::skeleton_of(body, ex);
        let mut defined = vec![false; vars.len()];
        if let Some(sk) = skel {
            let mut eqs = vec![];
            collect_eqs(sk, &mut eqs);
            for (l, r) in eqs {
                for (a, b) in [(l, r), (r, l)] {
                    if let Ok(v) = fol::Variable::try_from(a.clone()) {
                        if let Some(i) = vars.iter().position(|x| *x == v) {
                            let compound = matches!(
                                b,
                                GT::IntegerTerm(IT::BinaryOperation { .. })
                                    | GT::IntegerTerm(IT::UnaryOperation { .. })
                            ) || matches!(fol::Variable::try_from(b.clone()), Ok(ref w) if !vars.contains(w));
                            if compound {
                                defined[i] = true;
                            }
                        }
                    }
                }
            }
        }
        let mut best = None;
        for (i, v) in vars.iter().enumerate() {
            let score = (if defined[i] { 0 } else { 2 })
                + (if self.prefer.contains(&v.name) { 1 } else { 0 });
            match best {
                None => best = Some((score, i)),
                Some((s, _)) if score > s => best = Some((score, i)),
                _ => {}
            }
        }
        best.unwrap().1
    }

    fn skeleton_of(body: &F, ex: bool) -> Option<&F> {
        if ex {
            Some(body)
        } else {
            match body {
                F::BinaryFormula {
                    connective: fol::BinaryConnective::Implication,
                    lhs,
                    ..
                } => Some(lhs),
                F::BinaryFormula {
                    connective: fol::BinaryConnective::ReverseImplication,
                    rhs,
                    ..
                } => Some(rhs),
                F::UnaryFormula { formula, .. } => Some(formula),
                _ => None,
            }
        }
    }

    /// Candidate values for `target` such that every other value of its sort makes the
    /// scope false (exists) / true (forall) in both worlds. None = cannot determine.
    fn candidates(
        &mut self,
        target: &fol::Variable,
        others: &[fol::Variable],
        body: &F,
        ex: bool,
    ) -> Option<Vec<Val>> {
        if !body.free_variables().contains(target) {
            // orphan variable: one value suffices
            return self.domain(target.sort).into_iter().next().map(|v| vec![v]);
        }
        let mut scope: Vec<(Key, usize)> = vec![((target.name.clone(), target.sort), 0)];
        let mut sorts = vec![target.sort];
        for o in others {
            scope.push(((o.name.clone(), o.sort), sorts.len()));
            sorts.push(o.sort);
        }
        let set = self.cands_rec(body, ex, &mut scope, &mut sorts)?;
        Some(
            set.into_iter()
                .filter(|v| sort_ok(target.sort, v))
                .collect(),
        )
    }

    fn cands_rec(
        &mut self,
        f: &F,
        ex: bool,
        scope: &mut Vec<(Key, usize)>,
        sorts: &mut Vec<Sort>,
    ) -> Option<BTreeSet<Val>> {
        use fol::BinaryConnective::*;
        match (ex, f) {
            (
                true,
                F::BinaryFormula {
                    connective: Disjunction,
                    lhs,
                    rhs,
                },
            )
            | (
                false,
                F::BinaryFormula {
                    connective: Conjunction,
                    lhs,
                    rhs,
                },
            ) => {
                // a side that does not mention the target has the same value for every
                // candidate: one arbitrary value of the sort represents all of them
                let ml = mentions(lhs, scope, 0);
                let mr = mentions(rhs, scope, 0);
                if !ml || !mr {
                    let mut s = if ml {
                        self.cands_rec(lhs, ex, scope, sorts)?
                    } else if mr {
                        self.cands_rec(rhs, ex, scope, sorts)?
                    } else {
                        BTreeSet::new()
                    };
                    let any = self.domain(sorts[0]).into_iter().next()?;
                    s.insert(any);
                    return Some(s);
                }
                let mut a = self.cands_rec(lhs, ex, scope, sorts)?;
                let b = self.cands_rec(rhs, ex, scope, sorts)?;
                a.extend(b);
                Some(a)
            }
            (
                false,
                F::BinaryFormula {
                    connective: Implication,
                    lhs,
                    ..
                },
            ) => self.solve_skeleton(lhs, scope, sorts),
            (
                false,
                F::BinaryFormula {
                    connective: ReverseImplication,
                    rhs,
                    ..
                },
            ) => self.solve_skeleton(rhs, scope, sorts),
            (false, F::UnaryFormula { formula, .. }) => self.solve_skeleton(formula, scope, sorts),
            (
                false,
                F::QuantifiedFormula {
                    quantification,
                    formula,
                },
            ) if matches!(quantification.quantifier, fol::Quantifier::Forall) => {
                let n = scope.len();
                for v in &quantification.variables {
                    scope.push(((v.name.clone(), v.sort), sorts.len()));
                    sorts.push(v.sort);
                }
                // the target may be shadowed
                let r = if scope[n..].iter().any(|(k, _)| *k == scope[0].0) {
                    None
                } else {
                    self.cands_rec(formula, ex, scope, sorts)
                };
                scope.truncate(n);
                r
            }
            (true, _) => self.solve_skeleton(f, scope, sorts),
            _ => None,
        }
    }

    fn solve_skeleton(
        &mut self,
        skel: &F,
        scope: &mut Vec<(Key, usize)>,
        sorts: &mut Vec<Sort>,
    ) -> Option<BTreeSet<Val>> {
        let mut cons = vec![];
        self.skeleton(skel, scope, sorts, &mut cons);
        let mut sol: Vec<Option<Val>> = vec![None; sorts.len()];
        let mut out = BTreeSet::new();
        let mut budget = BRANCH_CAP;
        match search(&cons, &mut sol, sorts, &mut out, &mut budget) {
            Ok(()) => Some(out),
            Err(Stuck::Cap) => {
                self.stats.solver_cap += 1;
                None
            }
            Err(Stuck::Unknown) => None,
        }
    }

    fn skeleton(
        &self,
        f: &F,
        scope: &mut Vec<(Key, usize)>,
        sorts: &mut Vec<Sort>,
        cons: &mut Vec<Con>,
    ) {
        match f {
            F::BinaryFormula {
                connective: fol::BinaryConnective::Conjunction,
                lhs,
                rhs,
            } => {
                self.skeleton(lhs, scope, sorts, cons);
                self.skeleton(rhs, scope, sorts, cons);
            }
            F::QuantifiedFormula {
                quantification,
                formula,
            } if matches!(quantification.quantifier, fol::Quantifier::Exists) => {
                let n = scope.len();
                for v in &quantification.variables {
                    scope.push(((v.name.clone(), v.sort), sorts.len()));
                    sorts.push(v.sort);
                }
                self.skeleton(formula, scope, sorts, cons);
                scope.truncate(n);
            }
            F::AtomicFormula(fol::AtomicFormula::Comparison(c)) => {
                for (l, r, rr) in c.individuals() {
                    cons.push(Con {
                        rel: *r,
                        a: self.conv(l, scope),
                        b: self.conv(rr, scope),
                    });
                }
            }
            F::AtomicFormula(fol::AtomicFormula::Falsity) => cons.push(Con {
                rel: fol::Relation::Equal,
                a: X::K(Val::Int(0)),
                b: X::K(Val::Int(1)),
            }),
            _ => {}
        }
    }

    fn res(&self, k: Key, scope: &[(Key, usize)]) -> X {
        if let Some((_, id)) = scope.iter().rev().find(|(kk, _)| *kk == k) {
            return X::V(*id);
        }
        X::K(self
            .lookup(&k)
            .unwrap_or_else(|| panic!("unbound variable {:?}", k))
            .clone())
    }
    fn conv_int(&self, t: &IT, scope: &[(Key, usize)]) -> X {
        match t {
            IT::Numeral(n) => X::K(Val::Int(*n as i128)),
            IT::FunctionConstant(c) => X::K(self.konst(c, Sort::Integer)),
            IT::Variable(v) => self.res((v.clone(), Sort::Integer), scope),
            IT::UnaryOperation { arg, .. } => X::Neg(Box::new(self.conv_int(arg, scope))),
            IT::BinaryOperation { op, lhs, rhs } => X::Bin(
                op.clone(),
                Box::new(self.conv_int(lhs, scope)),
                Box::new(self.conv_int(rhs, scope)),
            ),
        }
    }
    fn conv(&self, t: &GT, scope: &[(Key, usize)]) -> X {
        match t {
            GT::Variable(v) => self.res((v.clone(), Sort::General), scope),
            GT::SymbolicTerm(ST::Variable(v)) => self.res((v.clone(), Sort::Symbol), scope),
            GT::IntegerTerm(t) => self.conv_int(t, scope),
            GT::Infimum => X::K(Val::Inf),
            GT::Supremum => X::K(Val::Sup),
            GT::FunctionConstant(c) => X::K(self.konst(c, Sort::General)),
            GT::SymbolicTerm(ST::Symbol(s)) => X::K(self.sym_override.get(s).cloned().unwrap_or_else(|| Val::Sym(s.clone()))),
            GT::SymbolicTerm(ST::FunctionConstant(c)) => X::K(self.konst(c, Sort::Symbol)),
        }
    }

    /// Audit of a solved expansion: every value of a generous domain outside the candidate
    /// set must make the scope constant (false for exists, true for forall).
    fn audit_solved(
        &mut self,
        ex: bool,
        v: &fol::Variable,
        others: &[fol::Variable],
        body: &F,
        cands: &[Val],
    ) {
        let big = Slice {
            w: std::cmp::max(self.inner.w, self.maxabs.min(40)) + 3,
            syms: self.inner.syms.clone(),
        };
        let dom = match v.sort {
            Sort::General => big.general(),
            Sort::Integer => big.ints(),
            Sort::Symbol => big.symbols(),
        };
        let saved_audit = self.audit;
        self.audit = false;
        // the instances at the candidate values: a value outside the candidate set is also harmless if its
        // instance equals one of these (and/or are idempotent) - the case of a variable the scope does not depend on
        let mut cand_instances: Vec<P> = vec![];
        for c in cands {
            self.env.push(((v.name.clone(), v.sort), c.clone()));
            cand_instances.push(self.expand(ex, others, body));
            self.env.pop();
        }
        for d in dom {
            if cands.contains(&d) {
                continue;
            }
            self.stats.audited += 1;
            self.env.push(((v.name.clone(), v.sort), d.clone()));
            let r = self.expand(ex, others, body);
            self.env.pop();
            let ok = (if ex { r == P::F } else { r == P::T }) || cand_instances.contains(&r);
            if !ok {
                self.audit_failures.push(format!(
                    "solver audit: {} {}={} not in candidates {:?} but scope is not constant: {}",
                    if ex { "exists" } else { "forall" },
                    v,
                    d,
                    cands,
                    body
                ));
            }
        }
        self.audit = saved_audit;
    }
}

fn collect_eqs<'b>(f: &'b F, out: &mut Vec<(&'b GT, &'b GT)>) {
    match f {
        F::BinaryFormula {
            connective: fol::BinaryConnective::Conjunction,
            lhs,
            rhs,
        } => {
            collect_eqs(lhs, out);
            collect_eqs(rhs, out);
        }
        F::QuantifiedFormula {
            quantification,
            formula,
        } if matches!(quantification.quantifier, fol::Quantifier::Exists) => {
            collect_eqs(formula, out)
        }
        F::AtomicFormula(fol::AtomicFormula::Comparison(c)) => {
            for (l, r, rr) in c.individuals() {
                if *r == fol::Relation::Equal {
                    out.push((l, rr));
                }
            }
        }
        _ => {}
    }
}

/// does `f` mention (free) the variable with scope id `id`?
fn mentions(f: &F, scope: &[(Key, usize)], id: usize) -> bool {
    let key = &scope.iter().find(|(_, i)| *i == id).unwrap().0;
    f.free_variables()
        .iter()
        .any(|v| v.name == key.0 && v.sort == key.1)
}

enum Stuck {
    Unknown,
    Cap,
}

fn ev(x: &X, sol: &[Option<Val>]) -> Option<Val> {
    match x {
        X::K(v) => Some(v.clone()),
        X::V(i) => sol[*i].clone(),
        X::Neg(a) => match ev(a, sol)? {
            Val::Int(i) => Some(Val::Int(-i)),
            _ => None,
        },
        X::Bin(op, a, b) => match (ev(a, sol)?, ev(b, sol)?) {
            (Val::Int(a), Val::Int(b)) => Some(Val::Int(match op {
                fol::BinaryOperator::Add => a.checked_add(b)?,
                fol::BinaryOperator::Subtract => a.checked_sub(b)?,
                fol::BinaryOperator::Multiply => a.checked_mul(b)?,
            })),
            _ => None,
        },
    }
}
fn unknowns(x: &X, sol: &[Option<Val>]) -> usize {
    match x {
        X::K(_) => 0,
        X::V(i) => {
            if sol[*i].is_some() {
                0
            } else {
                1
            }
        }
        X::Neg(a) => unknowns(a, sol),
        X::Bin(_, a, b) => unknowns(a, sol) + unknowns(b, sol),
    }
}
fn compound(x: &X) -> bool {
    matches!(x, X::Neg(_) | X::Bin(..))
}

/// make term x equal to value v. Some(true) = assigned a variable, Some(false) = impossible,
/// None = cannot decide / nothing to do.
fn assign(x: &X, v: &Val, sol: &mut Vec<Option<Val>>, sorts: &[Sort]) -> Option<bool> {
    match x {
        X::K(k) => {
            if k == v {
                None
            } else {
                Some(false)
            }
        }
        X::V(i) => {
            if sort_ok(sorts[*i], v) {
                sol[*i] = Some(v.clone());
                Some(true)
            } else {
                Some(false)
            }
        }
        _ => {
            // a compound (integer) term never equals a non-integer
            let Val::Int(n) = v else { return Some(false) };
            if unknowns(x, sol) != 1 {
                return None;
            }
            invert(x, *n, sol, sorts)
        }
    }
}
fn invert(x: &X, n: i128, sol: &mut Vec<Option<Val>>, sorts: &[Sort]) -> Option<bool> {
    match x {
        X::K(Val::Int(k)) => {
            if *k == n {
                None
            } else {
                Some(false)
            }
        }
        X::K(_) => Some(false),
        X::V(i) => {
            if sort_ok(sorts[*i], &Val::Int(n)) {
                sol[*i] = Some(Val::Int(n));
                Some(true)
            } else {
                Some(false)
            }
        }
        X::Neg(a) => invert(a, n.checked_neg()?, sol, sorts),
        X::Bin(op, a, b) => {
            let (ua, ub) = (unknowns(a, sol), unknowns(b, sol));
            let (unk, known, left) = if ua == 1 && ub == 0 {
                (a, b, true)
            } else if ub == 1 && ua == 0 {
                (b, a, false)
            } else {
                return None;
            };
            let Some(Val::Int(k)) = ev(known, sol) else {
                return None;
            };
            match op {
                fol::BinaryOperator::Add => invert(unk, n.checked_sub(k)?, sol, sorts),
                fol::BinaryOperator::Subtract => {
                    if left {
                        invert(unk, n.checked_add(k)?, sol, sorts)
                    } else {
                        invert(unk, k.checked_sub(n)?, sol, sorts)
                    }
                }
                fol::BinaryOperator::Multiply => {
                    if k == 0 {
                        if n == 0 {
                            None
                        } else {
                            Some(false)
                        }
                    } else if n % k == 0 {
                        invert(unk, n / k, sol, sorts)
                    } else {
                        Some(false)
                    }
                }
            }
        }
    }
}

/// Integer variables can only take integer values; a compound term forces all its
/// variables to be integers. Returns the integer lower/upper bound for variable `v`
/// implied by evaluable comparisons.
fn bounds(cons: &[Con], sol: &[Option<Val>], v: usize) -> (Option<i128>, Option<i128>) {
    use fol::Relation::*;
    let mut lo: Option<i128> = None;
    let mut hi: Option<i128> = None;
    let mut upd_lo = |x: i128| lo = Some(lo.map_or(x, |l: i128| l.max(x)));
    let mut upd_hi = |x: i128| hi = Some(hi.map_or(x, |h: i128| h.min(x)));
    for c in cons {
        // normalise to  var REL k
        let (rel, k) = match (&c.a, &c.b) {
            (X::V(i), other) if *i == v && sol[v].is_none() => match ev(other, sol) {
                Some(Val::Int(k)) => (c.rel, k),
                _ => continue,
            },
            (other, X::V(i)) if *i == v && sol[v].is_none() => match ev(other, sol) {
                Some(Val::Int(k)) => (
                    match c.rel {
                        Less => Greater,
                        LessEqual => GreaterEqual,
                        Greater => Less,
                        GreaterEqual => LessEqual,
                        r => r,
                    },
                    k,
                ),
                _ => continue,
            },
            _ => continue,
        };
        match rel {
            Less => upd_hi(k - 1),
            LessEqual => upd_hi(k),
            Greater => upd_lo(k + 1),
            GreaterEqual => upd_lo(k),
            Equal => {
                upd_lo(k);
                upd_hi(k)
            }
            NotEqual => {}
        }
    }
    (lo, hi)
}

fn search(
    cons: &[Con],
    sol: &mut Vec<Option<Val>>,
    sorts: &[Sort],
    out: &mut BTreeSet<Val>,
    budget: &mut usize,
) -> Result<(), Stuck> {
    if *budget == 0 {
        return Err(Stuck::Cap);
    }
    *budget -= 1;
    // propagate equalities
    loop {
        let mut progress = false;
        for c in cons {
            if c.rel != fol::Relation::Equal {
                continue;
            }
            let (va, vb) = (ev(&c.a, sol), ev(&c.b, sol));
            match (va, vb) {
                (Some(x), Some(y)) => {
                    if x != y {
                        return Ok(());
                    }
                }
                (Some(x), None) => {
                    // a compound side that cannot be evaluated because of a non-integer
                    // argument is handled by `ev` returning None with zero unknowns
                    if unknowns(&c.b, sol) == 0 {
                        return Ok(()); // arithmetic on non-integers: no such value
                    }
                    match assign(&c.b, &x, sol, sorts) {
                        Some(true) => progress = true,
                        Some(false) => return Ok(()),
                        None => {}
                    }
                }
                (None, Some(y)) => {
                    if unknowns(&c.a, sol) == 0 {
                        return Ok(());
                    }
                    match assign(&c.a, &y, sol, sorts) {
                        Some(true) => progress = true,
                        Some(false) => return Ok(()),
                        None => {}
                    }
                }
                (None, None) => {
                    if unknowns(&c.a, sol) == 0 || unknowns(&c.b, sol) == 0 {
                        // a closed side without value (cannot happen for well-sorted input)
                        return Ok(());
                    }
                }
            }
        }
        if !progress {
            break;
        }
    }
    // evaluable non-equalities prune
    for c in cons {
        if c.rel == fol::Relation::Equal {
            continue;
        }
        if let (Some(x), Some(y)) = (ev(&c.a, sol), ev(&c.b, sol)) {
            if !cmp(c.rel, &x, &y) {
                return Ok(());
            }
        }
    }
    if let Some(v) = &sol[0] {
        out.insert(v.clone());
        return Ok(());
    }
    // branch on a variable bounded on both sides; prefer the narrowest range
    let mut best: Option<(i128, usize, i128, i128)> = None;
    for v in 0..sol.len() {
        if sol[v].is_some() {
            continue;
        }
        // only variables that must be integers may be enumerated over an integer range:
        // an Integer-sorted variable, or a General one squeezed between two integers
        // (integers are contiguous in the standard order)
        if let (Some(lo), Some(hi)) = bounds(cons, sol, v) {
            let width = hi - lo + 1;
            if width <= 0 {
                return Ok(());
            }
            if best.map_or(true, |b| width < b.0) {
                best = Some((width, v, lo, hi));
            }
        }
    }
    let Some((width, v, lo, hi)) = best else {
        return Err(Stuck::Unknown);
    };
    if width as usize > *budget {
        return Err(Stuck::Cap);
    }
    for k in lo..=hi {
        let val = Val::Int(k);
        if !sort_ok(sorts[v], &val) {
            continue;
        }
        let mut s2 = sol.clone();
        s2[v] = Some(val);
        search(cons, &mut s2, sorts, out, budget)?;
    }
    let _ = compound;
    Ok(())
}
