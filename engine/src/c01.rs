//! C01 (tau* vs reference semantics) and C08 (natural / mu vs tau*), rule by rule.
use crate::dom::*;
use crate::enum_asp::*;
use crate::ground::G;
use crate::refsem;
use crate::report::*;
use crate::sem::*;
use crate::tt::*;
use anthem::syntax_tree::asp::mini_gringo as asp;
use anthem::syntax_tree::fol::sigma_0 as fol;
use anthem::translating::formula_representation::{
    mu::Mu as _, natural::Natural as _, tau_star::TauStar as _,
};
use rayon::prelude::*;
use serde_json::{json, Value};
use std::cell::RefCell;
use std::collections::HashMap;
use std::rc::Rc;

thread_local! {
    static HT_CACHE: RefCell<HashMap<usize, Rc<HtSpace>>> = RefCell::new(HashMap::new());
}
pub fn ht_space(n: usize) -> Rc<HtSpace> {
    HT_CACHE.with(|c| {
        c.borrow_mut()
            .entry(n)
            .or_insert_with(|| Rc::new(HtSpace::new(n)))
            .clone()
    })
}

#[derive(Clone, Copy, PartialEq)]
pub enum Mode {
    C01,
    C08,
}

pub struct Outcome {
    /// per window: list of (kind, rule index, description)
    pub diffs: Vec<Vec<(String, usize, Value)>>,
    pub nontrivial: Vec<u64>,
    pub interps: u64,
    pub natural_accepted: bool,
    pub int_sorted: usize,
    pub conform: u64,
    pub machinery: Vec<String>,
}

pub const W0: i128 = 6;

pub fn program_syms(prog: &asp::Program) -> Vec<String> {
    let mut s: Vec<String> = prog.function_constants().into_iter().collect();
    s.sort();
    s
}

/// Evaluate one program at windows `ws`.
pub fn evaluate(prog: &asp::Program, mode: Mode, limit: usize, rich: bool, ws: &[i128], conform: bool) -> Outcome {
    evaluate_with(prog, mode, limit, rich, ws, conform, false)
}

/// `numeric`: integer-only active set {1,2} (or {0,1,2} if it fits) instead of the default mix of one or
/// two integers and a symbol - needed where a multi-valued term must take two distinct values that are
/// both inside the universe (programs marked by a leading `%numeric` comment)
pub fn evaluate_with(prog: &asp::Program, mode: Mode, limit: usize, rich: bool, ws: &[i128], conform: bool, numeric: bool) -> Outcome {
    let preds: Vec<(String, usize)> = prog
        .predicates()
        .into_iter()
        .map(|p| (p.symbol, p.arity))
        .collect();
    let mut syms = program_syms(prog);
    let mut active = choose_active(&preds, limit, &syms, rich);
    if numeric {
        for c in [vec![Val::Int(0), Val::Int(1), Val::Int(2)], vec![Val::Int(1), Val::Int(2)]] {
            let n: usize = preds.iter().map(|(_, a)| c.len().pow(*a as u32)).sum();
            if n <= limit {
                active = c;
                break;
            }
        }
    }
    for v in &active {
        if let Val::Sym(x) = v {
            if !syms.contains(x) {
                syms.push(x.clone());
            }
        }
    }
    let u = Universe::new(&preds, &active);
    let hs = ht_space(u.len());
    let mut out = Outcome {
        diffs: vec![],
        nontrivial: vec![],
        interps: 0,
        natural_accepted: false,
        int_sorted: 0,
        conform: 0,
        machinery: vec![],
    };
    let tau = prog.clone().tau_star();
    let nat = if mode == Mode::C08 {
        prog.clone().natural()
    } else {
        None
    };
    let mu = if mode == Mode::C08 {
        Some(prog.clone().mu())
    } else {
        None
    };
    out.natural_accepted = nat.is_some();
    if tau.formulas.len() != prog.rules.len() {
        // not one formula per rule: the rules cannot be compared one by one, so the whole theory is compared
        // with the whole program (a dropped rule is harmless only if the rest entails it)
        let mut diffs_all = vec![];
        for &w in ws.iter() {
            let slice = slice_for(w, &syms);
            let mut cx = refsem::Ctx::new();
            let reference = refsem::program_sem(prog, &slice.general(), &u, &mut cx);
            let inner = slice.widened(std::cmp::max(w, cx.maxabs + 2));
            let mut g = G::new(&u, slice.clone(), inner);
            let ptau = P::and(tau.formulas.iter().map(|f| g.ground(f)).collect());
            let d = xor(&hs.sat(&reference), &hs.sat(&ptau));
            out.interps += hs.nvalid();
            diffs_all.push(match hs.sp.first_set(&d).filter(|i| hs.sp.get(&hs.valid, *i)) {
                Some(idx) => vec![("tau_star_formula_count_and_meaning".to_string(), 0usize, json!({"rules": prog.rules.len(), "formulas": tau.formulas.len(),
                    "interpretation": describe_ht(&hs, &u, idx), "theory": tau.to_string()}))],
                None => vec![],
            });
        }
        out.diffs = diffs_all;
        return out;
    }
    // a translation of a program is a set of sentences: a free variable in the output is reported as
    // such (it used to surface only as a panic of the evaluator on the unbound variable)
    let mut open: Vec<(String, usize, Value)> = vec![];
    let mut note_open = |what: &str, th: &fol::Theory| {
        for (ri, f) in th.formulas.iter().enumerate() {
            let fv = f.free_variables();
            if !fv.is_empty() {
                open.push((format!("{what}_output_not_closed"), ri, json!({"formula": f.to_string(), "free_variables": fv.iter().map(|v| v.to_string()).collect::<Vec<_>>()})));
            }
        }
    };
    note_open("tau_star", &tau);
    if let Some(n) = &nat {
        note_open("natural", n);
    }
    if let Some(m) = &mu {
        note_open("mu", m);
    }
    if !open.is_empty() {
        out.diffs = ws.iter().map(|_| open.clone()).collect();
        return out;
    }
    for (wi, &w) in ws.iter().enumerate() {
        let mut diffs = vec![];
        let slice = slice_for(w, &syms);
        for (ri, rule) in prog.rules.iter().enumerate() {
            let mut cx = refsem::Ctx::new();
            let reference = refsem::rule_sem(rule, &slice.general(), &u, &mut cx);
            let inner = slice.widened(std::cmp::max(w, cx.maxabs + 2));
            let prefer: Vec<String> = rule.variables().into_iter().map(|v| v.0).collect();
            let mk = |f: &fol::Formula, audit: bool| -> (P, Vec<String>) {
                let mut g = G::new(&u, slice.clone(), inner.clone());
                g.prefer = prefer.clone();
                g.audit = audit;
                let p = g.ground(f);
                (p, g.audit_failures)
            };
            let (ptau, af) = mk(&tau.formulas[ri], conform && wi == 0);
            out.machinery.extend(af);
            let ttau = hs.sat(&ptau);
            if mode == Mode::C01 {
                let tref = hs.sat(&reference);
                out.interps += hs.nvalid();
                if wi == 0 {
                    let c = hs.sp.count(&tref);
                    if c != 0 && c != hs.nvalid() {
                        out.nontrivial.push(hash_of(&tref));
                    }
                    if conform {
                        match conform_ht(&hs, &reference).and_then(|a| conform_ht(&hs, &ptau).map(|b| a + b)) {
                            Ok(n) => out.conform += n,
                            Err(e) => out.machinery.push(e),
                        }
                    }
                }
                let d = xor(&tref, &ttau);
                if let Some(idx) = hs.sp.first_set(&d) {
                    diffs.push((
                        "tau_star_vs_reference".to_string(),
                        ri,
                        json!({"interpretation": describe_ht(&hs, &u, idx),
                               "reference_satisfied": hs.sp.get(&tref, idx),
                               "tau_star_satisfied": hs.sp.get(&ttau, idx),
                               "tau_star_formula": tau.formulas[ri].to_string()}),
                    ));
                }
            } else {
                if wi == 0 {
                    let c = hs.sp.count(&ttau);
                    if c != 0 && c != hs.nvalid() {
                        out.nontrivial.push(hash_of(&ttau));
                    }
                }
                if let Some(nt) = &nat {
                    if nt.formulas.len() != prog.rules.len() {
                        out.machinery.push("natural: formula count".into());
                    } else {
                        let (pn, af) = mk(&nt.formulas[ri], conform && wi == 0);
                        out.machinery.extend(af);
                        let tn = hs.sat(&pn);
                        out.interps += hs.nvalid();
                        if wi == 0 {
                            out.int_sorted += nt.formulas[ri]
                                .variables()
                                .iter()
                                .filter(|v| v.sort == fol::Sort::Integer)
                                .count();
                            if conform {
                                match conform_ht(&hs, &pn) {
                                    Ok(n) => out.conform += n,
                                    Err(e) => out.machinery.push(e),
                                }
                            }
                        }
                        let d = xor(&tn, &ttau);
                        if let Some(idx) = hs.sp.first_set(&d) {
                            diffs.push((
                                "natural_vs_tau_star".to_string(),
                                ri,
                                json!({"interpretation": describe_ht(&hs, &u, idx),
                                       "natural_satisfied": hs.sp.get(&tn, idx),
                                       "tau_star_satisfied": hs.sp.get(&ttau, idx),
                                       "natural_formula": nt.formulas[ri].to_string(),
                                       "tau_star_formula": tau.formulas[ri].to_string()}),
                            ));
                        }
                    }
                }
                if let Some(m) = &mu {
                    if m.formulas.len() != prog.rules.len() {
                        diffs.push((
                            "mu_formula_count".to_string(),
                            ri,
                            json!({"mu_formulas": m.formulas.len(), "rules": prog.rules.len()}),
                        ));
                    } else {
                        let (pm, _) = mk(&m.formulas[ri], false);
                        let tm = hs.sat(&pm);
                        out.interps += hs.nvalid();
                        let d = xor(&tm, &ttau);
                        if let Some(idx) = hs.sp.first_set(&d) {
                            diffs.push((
                                "mu_vs_tau_star".to_string(),
                                ri,
                                json!({"interpretation": describe_ht(&hs, &u, idx),
                                       "mu_satisfied": hs.sp.get(&tm, idx),
                                       "tau_star_satisfied": hs.sp.get(&ttau, idx),
                                       "mu_formula": m.formulas[ri].to_string(),
                                       "tau_star_formula": tau.formulas[ri].to_string()}),
                            ));
                        }
                    }
                }
            }
        }
        out.diffs.push(diffs);
    }
    out
}

pub fn inputs(quick: bool) -> Vec<String> {
    let lv = leaves(false);
    let mut rules: Vec<String> = vec![];
    // propositional and basic shapes first (simplest first)
    for r in [
        "r.", "r :- s.", "r :- not s.", "r :- not not s.", "{r}.", "{r} :- s.", ":- r.", ":- r, not s.",
        "p(X) :- q(X).", "{p(X)} :- q(X).", ":- q(X), not p(X).", "p(X,Y) :- q(X), q(Y).",
        "p(X) :- q(X), not r.", "p(1,2).", "{p(X,1)} :- q(X).", "r :- q(X), X = Y.",
    ] {
        rules.push(r.to_string());
    }
    let t1 = terms_upto(1, &lv);
    for ctx in single_term_contexts() {
        for t in &t1 {
            rules.push(inst(ctx, t));
        }
    }
    for ctx in repeated_term_contexts() {
        for t in &t1 {
            rules.push(inst(ctx, t));
            // the same under an integer-only active set: two distinct values of a multi-valued term
            // must both be inside the universe for the positions to be seen as independent
            rules.push(format!("%numeric\n{}", inst(ctx, t)));
        }
    }
    // comparison contexts: T_1 x T_0 (quick) / T_1 x T_1 restricted (thorough)
    let t0 = terms_exact(0, &lv);
    for (ci, ctx) in comparison_contexts().into_iter().enumerate() {
        if quick && ci > 0 {
            continue;
        }
        for r in RELS {
            for a in &t1 {
                for b in &t0 {
                    rules.push(inst2(ctx, a, r, b));
                    if a != b && !t0.contains(a) {
                        rules.push(inst2(ctx, b, r, a));
                    }
                }
            }
        }
    }
    // a term compared with itself: the relation alone decides nothing when the term is partial or multi-valued
    for r in RELS {
        for a in &t1 {
            if !t0.contains(a) {
                rules.push(inst2("r :- {0} {R} {1}, q(X), q(Y).", a, r, a));
            }
        }
    }
    // adversarial variable names
    for tpl in adversarial_templates() {
        for x in ADVERSARIAL {
            for y in ADVERSARIAL {
                if x != y {
                    rules.push(rename_xy(tpl, x, y));
                }
            }
        }
    }
    // binary heads
    for a in &t1 {
        if quick && a.len() > 3 {
            continue;
        }
        rules.push(format!("p({a},X) :- q(X)."));
        rules.push(format!("{{p(X,{a})}} :- q(X)."));
    }
    // atoms of arity 2 and 3 with a complex term in each position
    for (ti, a) in t1.iter().enumerate() {
        if quick && ti % 3 != 0 {
            continue;
        }
        rules.push(format!("r :- s({a},X), q(X)."));
        rules.push(format!("r :- not s(Y,{a}), q(Y)."));
        rules.push(format!("s({a},{a}) :- q(X), q(Y)."));
        rules.push(format!("r :- s(X,{a},b), q(X)."));
        rules.push(format!("{{s(X,{a})}} :- q(X), not q({a})."));
    }
    // several body literals sharing variables, two symbols
    for r in [
        "p(X) :- q(X), q(Y), X != Y, not r(Y).", "p(X) :- q(X), X != a, X != b.", "p(b) :- q(a).", "r :- q(X), q(X+1), not q(X+2).",
        "p(X) :- q(X), not not q(X), not q(X).", "{p(X)} :- q(X), X = 1..2, X != 1.", ":- q(X), q(Y), X + Y = 2.", "p(X+Y) :- q(X), q(Y), X < Y.",
        "p(X) :- X = Y, Y = 1, q(X).", "p(X) :- q(X), 1 < X, X < 3.", "p(1..X) :- q(X).", "p(X..2) :- q(X).", "p(X*Y) :- q(X), q(Y), not q(X*Y).",
    ] {
        rules.push(r.to_string());
    }
    if quick {
        // a stride of T_2 in the head context (all of T_2 in the thorough tier)
        let t2 = terms_exact(2, &lv);
        for (i, t) in t2.iter().enumerate() {
            if i % 11 == 0 {
                rules.push(inst("p({}) :- q(X), q(Y).", t));
            }
        }
    }
    // two-rule programs (global V_n choice)
    let alpha = program_rule_alphabet();
    for a in &alpha {
        for b in &alpha {
            rules.push(format!("{a} {b}"));
        }
    }
    if !quick {
        let lvt = leaves(false);
        let t2 = terms_exact(2, &lvt);
        for ctx in ["p({}) :- q(X), q(Y).", "r :- q({}), q(X), q(Y).", "r :- not q({}), q(X).", "{p({})} :- q(X)."] {
            for t in &t2 {
                rules.push(inst(ctx, t));
            }
        }
        // T_1 x T_1 comparisons, first context
        let t1e = terms_exact(1, &lvt);
        for r in RELS {
            for (i, a) in t1e.iter().enumerate() {
                for (j, b) in t1e.iter().enumerate() {
                    // all pairs of a 1-in-7 stride keeps every term on both sides
                    if (i + j) % 7 == 0 {
                        rules.push(inst2("r :- {0} {R} {1}, q(X), q(Y).", a, r, b));
                    }
                }
            }
        }
        // extended leaves in T_1 single-term contexts
        let lv2 = leaves(true);
        for t in terms_exact(1, &lv2) {
            if t.contains('3') || t.contains("-2") || t.contains('b') {
                rules.push(inst("p({}) :- q(X), q(Y).", &t));
                rules.push(inst("r :- not q({}), q(X).", &t));
            }
        }
    }
    rules
}

pub fn run(mode: Mode, run: &Run) {
    let quick = run.quick();
    let all = inputs(quick);
    let total = all.len();
    let id = if mode == Mode::C01 { "C01" } else { "C08" };
    run.set_rule(&format!(
        "every rule/program of the generated alphabets (single-term contexts x T_1{}, comparison contexts, \
         adversarial renamings, binary heads, 2-rule programs) x all HT interpretations H subset-of T over U; \
         non-trivial = distinct HT truth table that is neither empty nor full",
        if quick { "" } else { " and T_2" }
    ));
    run.set_extra("inputs_generated", json!(total));
    run.set_extra("windows", json!([W0, W0 + 3]));
    run.assume("standard-domain slice: integers [-w,w], input symbols + 2 spares, #inf, #sup; atoms over a 2-4 element active set; a translation that is only correct through witnesses beyond B^2+B+2 would be misjudged");
    run.assume("division/modulo with a negative divisor: the reference follows the implementation's documented convention (no value)");
    let limit = 8;
    let seed = run.seed as usize;
    let idx: Vec<usize> = (0..total).collect();
    idx.par_iter().for_each(|&i0| {
        let i = (i0 + seed) % total;
        let text = &all[i];
        let _w = run.watch("program", "program", text);
        let prog: asp::Program = match text.parse() {
            Ok(p) => p,
            Err(_) => {
                run.skipped.fetch_add(1, std::sync::atomic::Ordering::Relaxed);
                return;
            }
        };
        let conform = i % 50 == 0 || i < 40;
        let o = std::panic::catch_unwind(std::panic::AssertUnwindSafe(|| {
            evaluate_with(&prog, mode, limit, false, &[W0, W0 + 3], conform, text.starts_with("%numeric"))
        }));
        let o = match o {
            Ok(o) => o,
            Err(e) => {
                let msg = e
                    .downcast_ref::<String>()
                    .cloned()
                    .or_else(|| e.downcast_ref::<&str>().map(|s| s.to_string()))
                    .unwrap_or_default();
                run.violation(
                    format!("panic|{text}"),
                    json!({"kind": "panic", "program": text, "message": msg}),
                );
                return;
            }
        };
        run.state();
        run.trans(o.interps);
        run.valid(o.conform);
        for m in &o.machinery {
            run.machinery(format!("{m} (input: {text})"));
        }
        for h in &o.nontrivial {
            run.observe(*h);
        }
        if mode == Mode::C08 {
            if o.natural_accepted {
                run.count("natural_accepted", 1);
            } else {
                run.count("natural_rejected", 1);
            }
            if o.int_sorted > 0 {
                run.count("programs_with_integer_sorted_variables", 1);
            }
        }
        if i < 3 || i == total / 2 || i + 1 == total {
            run.sample(json!({"program": text, "interpretations": o.interps}));
        }
        let (d0, d1) = (&o.diffs[0], &o.diffs[1]);
        for (kind, ri, desc) in d0 {
            if d1.iter().any(|(k, r, _)| k == kind && r == ri) {
                run.violation(
                    format!("{kind}|{text}"),
                    json!({"kind": kind, "program": text, "rule_index": ri, "windows": [W0, W0+3], "detail": desc}),
                );
            } else {
                run.window_unstable.fetch_add(1, std::sync::atomic::Ordering::Relaxed);
                run.sample_force(json!({"window_unstable": text, "kind": kind, "detail": desc}));
            }
        }
        for (kind, ri, desc) in d1 {
            if !d0.iter().any(|(k, r, _)| k == kind && r == ri) {
                run.window_unstable.fetch_add(1, std::sync::atomic::Ordering::Relaxed);
                run.sample_force(json!({"window_unstable": text, "kind": kind, "detail": desc}));
            }
        }
    });
    let _ = id;
}

pub fn replay(mode: Mode, v: &Value) -> i32 {
    let text = v["replay"]["program"].as_str().unwrap_or("");
    let prog: asp::Program = match text.parse() {
        Ok(p) => p,
        Err(e) => {
            println!("replay: program does not parse: {e}");
            return 2;
        }
    };
    let mut res = vec![];
    for _ in 0..2 {
        let o = evaluate_with(&prog, mode, 8, false, &[W0, W0 + 3], false, text.starts_with("%numeric"));
        res.push(format!("{:?}", o.diffs));
    }
    if res[0] != res[1] {
        println!("replay: NON-DETERMINISTIC verdicts");
        return 2;
    }
    println!("replay of `{text}`: {}", res[0]);
    if res[0] == "[[], []]" {
        0
    } else {
        1
    }
}
