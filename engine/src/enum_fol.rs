//! Bounded-exhaustive generators for target-language formulas (as fully parenthesised
//! text; every text is parsed by anthem, so trees are in the image of its parser).

pub fn atoms() -> Vec<&'static str> {
    vec![
        "p", "q(X)", "q(Y)", "q(X$i)", "q(a)", "q(1)", "X = Y", "X = a", "X = X", "X$i = Y$i",
        "X$i = Y$i + 1", "X$i = X$i + 1", "X = Y$i", "X$i = 1", "X$i < 2", "1 <= X$i <= 2",
        "X != Y", "#true", "#false", "X$s = a", "q(X$s)",
    ]
}

/// a smaller atom set for deeper trees
pub fn core_atoms() -> Vec<&'static str> {
    vec!["p", "q(X)", "q(Y)", "X = Y", "X$i = 1", "X = Y$i", "#true", "#false"]
}

pub const BIN: [&str; 5] = ["and", "or", "->", "<-", "<->"];

pub fn prefixes() -> Vec<&'static str> {
    vec![
        "forall X", "exists X", "forall Y", "exists Y", "forall X$i", "exists X$i", "forall Y$i",
        "exists Y$i", "forall X$s", "exists X$s", "forall X Y", "exists X Y", "forall X X$i",
        "exists X X$i", "forall X X", "exists X X", "exists X$i Y$i", "forall X$i Y$i",
    ]
}

/// all formulas with exactly one connective / quantifier over `atoms`
pub fn f1(at: &[&str]) -> Vec<String> {
    let mut out = vec![];
    for a in at {
        out.push(format!("not ({a})"));
    }
    for op in BIN {
        for a in at {
            for b in at {
                out.push(format!("({a}) {op} ({b})"));
            }
        }
    }
    out
}

pub fn f1_binary(at: &[&str]) -> Vec<String> {
    let mut out = vec![];
    for op in BIN {
        for a in at {
            for b in at {
                out.push(format!("({a}) {op} ({b})"));
            }
        }
    }
    out
}

/// family A+B: atoms, F_1, every prefix over every atom and F_1 formula
pub fn family_ab() -> Vec<String> {
    let at = atoms();
    let mut out: Vec<String> = at.iter().map(|s| s.to_string()).collect();
    let f = f1(&at);
    out.extend(f.iter().cloned());
    for p in prefixes() {
        for a in &at {
            out.push(format!("{p} ({a})"));
        }
        for g in &f {
            out.push(format!("{p} ({g})"));
        }
    }
    out
}

pub fn conj_atoms() -> Vec<&'static str> {
    vec![
        "p", "q(X)", "q(X$i)", "q(Y)", "X = Y", "Y = X", "X = a", "X$i = a", "X = X$i", "X$i = X",
        "X$i = Y$i", "Y$i = X$i", "X = Y$i", "X$i = 1", "X$i = X$i + 1", "X$i = Y$i + 1",
        "not q(X)", "X$s = a", "X = X$s",
        // chained comparisons that start with an equation (one atomic formula, not an equation)
        "X$i = Y < 2", "Y$i = Y < 2", "X = Y != a", "X$i = X <= Y$i",
    ]
}

/// family C: quantified blocks over 3-conjunctions (the shapes the classic rewrites match)
pub fn family_c(quick: bool) -> Vec<String> {
    let ca = conj_atoms();
    let pre: Vec<&str> = if quick {
        vec!["exists X", "exists X$i", "exists X Y", "exists X X$i", "exists X$i Y$i", "forall X", "exists X$i X$s"]
    } else {
        vec![
            "exists X", "exists X$i", "exists Y", "exists Y$i", "exists X Y", "exists X X$i",
            "exists X$i Y$i", "exists X$s", "exists X X$s", "forall X", "forall X$i", "exists X Y$i",
            "exists X$i X$s", "exists X X$i X$s", "forall X$i X$s",
        ]
    };
    let mut out = vec![];
    for p in pre {
        for a in &ca {
            for b in &ca {
                out.push(format!("{p} (({a}) and ({b}))"));
                for c in &ca {
                    if quick && !(a == b || b == c || a == c || (a.contains('=') && b.contains('='))) {
                        continue;
                    }
                    out.push(format!("{p} ((({a}) and ({b})) and ({c}))"));
                }
            }
        }
    }
    out
}

/// family D: two-level quantifier shapes (shadowing, restrict/extend scope patterns)
pub fn family_d(quick: bool) -> Vec<String> {
    let outer = ["exists X", "forall X", "exists X Y", "forall X Y", "exists X$i", "forall X$i", "exists Y"];
    let inner = ["exists X", "exists X$i", "exists Y$i", "exists X X$i", "exists Y", "forall X", "forall X$i", "exists X$i Y$i", "exists Y Y$i"];
    let a1 = ["q(X)", "q(Y)", "p", "X = Y", "X = X$i", "X = Y$i", "Y = X$i", "X$i = 1", "q(X$i)", "Y = Y$i"];
    let a2: Vec<&str> = if quick {
        vec!["q(X)", "X = X$i", "X = Y$i", "Y = Y$i", "q(Y)"]
    } else {
        a1.to_vec()
    };
    let mut out = vec![];
    for o in outer {
        for i in inner {
            for a in a1 {
                for b in &a2 {
                    for c in &a2 {
                        // outer (A and inner (B and C)), outer (inner (B and C) and A),
                        // outer (inner (B and C) -> A), outer (A or inner (B and C))
                        out.push(format!("{o} (({a}) and {i} (({b}) and ({c})))"));
                        out.push(format!("{o} ({i} (({b}) and ({c})) and ({a}))"));
                        out.push(format!("{o} ({i} (({b}) and ({c})) -> ({a}))"));
                        if !quick {
                            out.push(format!("{o} (({a}) or {i} (({b}) and ({c})))"));
                            out.push(format!("{o} ({i} (({b}) or ({c})) and ({a}))"));
                            out.push(format!("({a}) and {i} (({b}) and ({c}))"));
                            out.push(format!("{i} (({b}) and ({c})) or ({a})"));
                        }
                    }
                }
            }
        }
    }
    out
}

/// family E: binary over binary with core atoms (depth 2)
pub fn family_e() -> Vec<String> {
    let f = f1(&core_atoms());
    let ca = core_atoms();
    let mut out = vec![];
    for op in BIN {
        for a in &f {
            for b in &ca {
                out.push(format!("({a}) {op} ({b})"));
                out.push(format!("({b}) {op} ({a})"));
            }
        }
    }
    for a in &f {
        out.push(format!("not ({a})"));
        out.push(format!("not (not ({a}))"));
        for p in ["forall X", "exists X", "exists X$i", "forall X Y"] {
            out.push(format!("{p} (not ({a}))"));
        }
    }
    out
}

/// family F: rewrite-targeted patterns placed under every context of depth 1
pub fn family_f() -> Vec<String> {
    let m: Vec<&str> = vec!["p", "q(X)", "X = Y", "X$i = 1", "#true", "#false", "not p", "q(X) and p"];
    let mut pats: Vec<String> = vec![];
    for a in &m {
        pats.push(format!("({a}) -> #false"));
        pats.push(format!("#true -> ({a})"));
        pats.push(format!("({a}) -> ({a})"));
        pats.push(format!("({a}) and ({a})"));
        pats.push(format!("({a}) or ({a})"));
        pats.push(format!("not (not ({a}))"));
        pats.push(format!("not (not (not ({a})))"));
        pats.push(format!("exists X (exists Y ({a}))"));
        pats.push(format!("forall X (forall X$i ({a}))"));
        pats.push(format!("exists X (forall Y ({a}))"));
        pats.push(format!("exists Z ({a})"));
        for b in &m {
            pats.push(format!("(({a}) -> ({b})) and (({b}) -> ({a}))"));
            pats.push(format!("(({a}) -> ({b})) and (({a}) -> ({b}))"));
            pats.push(format!("({a}) <- ({b})"));
            pats.push(format!("({a}) <-> ({b})"));
        }
    }
    pats.push("1 <= X$i <= 2".into());
    pats.push("X = X = Y".into());
    pats.push("X$i < X$i <= Y$i".into());
    pats.push("X != X".into());
    pats.push("1 = 1".into());
    // equations / disequations between two different constants
    pats.push("1 = 2".into());
    pats.push("2 = 1".into());
    pats.push("1 != 2".into());
    pats.push("a = b".into());
    pats.push("1 = a".into());
    pats.push("X$i = 1 and X$i = 2".into());
    pats.push("a = a != X".into());
    let mut out = pats.clone();
    for pt in &pats {
        out.push(format!("not ({pt})"));
        for c in ["p", "q(Y)"] {
            for op in BIN {
                out.push(format!("({pt}) {op} ({c})"));
                out.push(format!("({c}) {op} ({pt})"));
            }
        }
        for p in ["forall X", "exists X", "exists X$i", "forall Y"] {
            out.push(format!("{p} ({pt})"));
        }
    }
    out
}

/// shapes that come out of the translations (tau*, completion, gamma)
pub fn family_g() -> Vec<String> {
    vec![
        "forall V1 X (V1 = X and exists Z (Z = X and q(Z)) -> q(V1))",
        "forall V1 (q(V1) <-> exists X (V1 = X and exists Z (Z = X and q(Z))))",
        "forall V1 (q(V1) <-> exists I$i J$i (V1 = I$i + J$i and I$i = 1 and J$i = 1))",
        "forall X (exists Z (exists I$i J$i (Z = I$i + J$i and I$i = X and J$i = 1) and q(Z)) -> p)",
        "exists Z Z1 (exists I$i J$i (Z = J$i and q(I$i)) and Z = Z1)",
        "exists Z Z1 (Z = Z1 and exists I$i J$i (q(I$i) and Z = J$i))",
        "forall X Y (exists Z I$i (q(X) and q(Z) and Y = I$i) -> q(X))",
        "forall X Y (exists Z I$i (q(X) and q(Z) and Y = I$i) -> q(Y))",
        "exists X (exists X I$i (X = I$i) and q(X))",
        "exists X (q(X) and exists X I$i (X = I$i and q(X)))",
        "forall X (exists X I$i (X = I$i and p) -> p)",
        "exists X$i (p and X$i = a and X$i = a)",
        "exists X Y (X = Y and X = Y and q(X))",
        "exists X Y (X = a and Y = a and q(X) and not q(Y))",
        "exists X Y$i (X = 1 and Y$i = 1 and q(X) and not q(Y$i))",
        "exists X X$i (X = X$i and q(X))",
        "exists X (X = X$i and X = Y$i)",
        "exists X Y (X = Y$i and Y = Y$i and q(X))",
        "exists X$i Y$i (X$i = Y$i + 1 and Y$i = X$i + 1)",
        "exists X$i (X$i = X$i + 1 and p)",
        "exists X (X = a and forall X (q(X)))",
        "exists X (X = Y and exists Y (q(Y) and X = Y))",
        "exists Y (Y = X and exists X (q(X) and q(Y)))",
        "exists Y$i (Y$i = X$i + 1 and forall X$i (q(X$i) or q(Y$i)))",
        "forall X (q(X)) or q(X)",
        "exists X (q(X)) and q(X)",
        "q(X) and exists X (q(X))",
        "exists X (q(X)) or exists X (not q(X))",
        "forall X (q(X)) and forall Y (q(Y))",
        "forall X (q(X) -> p) and exists Y (q(Y))",
        "not not q(X)",
        "not not (q(X) or not q(X))",
        "not not p -> p",
        "(p -> q(X)) and (q(X) -> p)",
        "forall X (q(X) or not q(X))",
        "exists X$i (1 <= X$i <= 2 and q(X$i))",
        "forall N$i (1 <= N$i <= 2 -> q(N$i))",
        "exists X (X > 1 and q(X))",
        "exists X (X >= a and q(X))",
        "forall X (X < #inf or q(X))",
        "forall X (#inf < X)", "forall X (q(X) -> X < #sup)", "exists X (not #inf < X)", "forall X (#inf < X or q(X))", "forall X (#inf <= X)", "exists X (X >= #sup and q(X))",
        "forall X (X <= #sup)", "exists X (#sup < X)", "forall X$i (#inf < X$i < #sup)", "forall X (#inf < X < #sup)",
        "exists X$s (q(X$s))",
        "forall X$s (X$s = a -> q(X$s))",
    ]
    .into_iter()
    .map(String::from)
    .collect()
}

/// family H: deep chains in which every nesting level needs its own simplification pass
/// (a rewrite at level k only becomes applicable after level k-1 has been rewritten)
pub fn family_h(maxdepth: usize) -> Vec<String> {
    let mut out = vec![];
    for d in 2..=maxdepth {
        // guarded existential definitions
        for (guard_l, guard_r) in [("(", " -> "), ("(not ", " or ")] {
            for sort in ["", "$i"] {
                let mut f = format!("q(X{d}{sort})");
                for k in (2..=d).rev() {
                    f = format!("exists X{k}{sort} (({guard_l}X{}{sort} = {}){guard_r}X{k}{sort} = {k}) and {f})", k - 1, k - 1);
                }
                out.push(format!("exists X1{sort} (X1{sort} = 1 and {f})"));
            }
        }
        // towers of double negations separated by quantifiers and identities
        let mut f = "q(X)".to_string();
        for k in 0..d {
            f = if k % 2 == 0 { format!("not not ({f} and #true)") } else { format!("exists Y{k} ({f} or #false)") };
        }
        out.push(f);
        // implications whose antecedent becomes #true one level at a time
        let mut f = "p".to_string();
        for _ in 0..d {
            f = format!("(1 = 1 -> ({f})) and (p -> p)");
        }
        out.push(f);
        // equality chains: X1 = 1, X2 = X1, ... q(Xd)
        let mut f = format!("q(X{d})");
        for k in (2..=d).rev() {
            f = format!("exists X{k} (X{k} = X{} and {f})", k - 1);
        }
        out.push(format!("exists X1 (X1 = 1 and {f})"));
    }
    out
}

/// family I: capture pressure inside the simplifiers - a defined variable whose defining term
/// mentions V and the first fresh-name candidates of V (V1, V2), over a nested quantifier that
/// re-binds some of them: substituting the definition must rename the inner binder to a name that
/// is fresh for the term as well
pub fn family_i() -> Vec<String> {
    let mut out = vec![];
    let int_terms = ["Y$i + Y1$i", "Y1$i + Y$i", "Y$i * Y1$i", "Y$i + Y2$i", "Y$i + Y1$i + Y2$i", "Y$i", "Y1$i - Y$i"];
    let gen_terms = ["Y", "Y1", "Y$i + Y1$i", "Y$i"];
    let inner_vars_i = ["Y$i", "Y1$i", "Y$i Y1$i", "Y2$i", "Y"];
    let inner_vars_g = ["Y", "Y1", "Y Y1", "Y$i", "Y$i Y1$i"];
    let bodies = ["q(X) and q(V)", "q(X) or not q(V)", "q(X) -> q(V)", "X = V and q(V)"];
    for (x, terms, ivs) in [("X$i", &int_terms[..], &inner_vars_i[..]), ("X", &gen_terms[..], &inner_vars_g[..])] {
        for t in terms {
            for iv in ivs {
                let first = iv.split(' ').next().unwrap();
                for b in bodies {
                    let body = b.replace('X', x).replace('V', first);
                    for iq in ["exists", "forall"] {
                        out.push(format!("exists {x} ({x} = {t} and {iq} {iv} ({body}))"));
                        out.push(format!("forall {x} ({x} = {t} -> {iq} {iv} ({body}))"));
                        out.push(format!("exists {x} ({iq} {iv} ({body}) and {t} = {x})"));
                    }
                }
            }
        }
    }
    // the defined variable is itself the first fresh-name candidate of the re-binding quantifier and does not
    // occur in its body
    for (x, y, body) in [("Y1", "Y", "q(Y)"), ("Y1", "Y", "q(Y) or q(X)"), ("Y1$i", "Y$i", "q(Y$i)"), ("Y2", "Y1", "q(Y1) and q(Y)")] {
        for iq in ["exists", "forall"] {
            out.push(format!("exists {x} ({x} = {y} and {iq} {y} ({body}))"));
            out.push(format!("forall {x} ({x} = {y} -> {iq} {y} ({body}))"));
            out.push(format!("exists {x} ({iq} {y} ({body}) and {y} = {x})"));
        }
    }
    out
}

/// family J: fresh-name pressure inside the simplifiers - `restrict_quantifier_domain` replaces a
/// general variable by a fresh integer variable named after the first letter of the inner
/// variable; every subset of the first candidates (S, S1, S2, S3) is already taken by other
/// variables of the formula, at either sort
pub fn family_j() -> Vec<String> {
    let mut out = vec![];
    for stem in ["I", "N"] {
        for iv in [stem.to_string(), format!("{stem}1")] {
            for mask in 0..16u32 {
                for sort in ["", "$i"] {
                    let mut taken: Vec<String> = vec![];
                    for (bit, suffix) in ["", "1", "2", "3"].iter().enumerate() {
                        let name = format!("{stem}{suffix}");
                        if mask & (1 << bit) != 0 && name != iv {
                            taken.push(format!("{name}{sort}"));
                        }
                    }
                    let names = taken.join(" ");
                    let h = if taken.is_empty() { "p".to_string() } else { taken.iter().map(|v| format!("q({v})")).collect::<Vec<_>>().join(" or ") };
                    let sp = if names.is_empty() { String::new() } else { format!(" {names}") };
                    out.push(format!("forall X{sp} (exists {iv}$i (X = {iv}$i and q({iv}$i)) -> {h})"));
                    out.push(format!("forall X{sp} (exists {iv}$i ({iv}$i = X and q({iv}$i)) -> {h})"));
                    out.push(format!("exists X{sp} (exists {iv}$i (X = {iv}$i and q({iv}$i)) and ({h}))"));
                }
            }
        }
    }
    out.sort();
    out.dedup();
    out
}

/// every formula of connective depth <= `depth` over `atoms` with negation (if `neg`) and the
/// binary connectives `ops` (fully parenthesised)
pub fn all_formulas(atoms: &[&str], neg: bool, ops: &[&str], depth: usize) -> Vec<String> {
    let mut level: Vec<String> = atoms.iter().map(|s| s.to_string()).collect();
    for _ in 0..depth {
        let mut next = level.clone();
        if neg {
            for a in &level {
                next.push(format!("not ({a})"));
            }
        }
        for op in ops {
            for a in &level {
                for b in &level {
                    next.push(format!("({a}) {op} ({b})"));
                }
            }
        }
        next.sort();
        next.dedup();
        level = next;
    }
    level
}

/// family K (thorough tiers): complete connective depth 2 over five atoms and all six connectives,
/// complete depth 3 over {p, q(X)} and {not, ->, <-}
pub fn family_k() -> Vec<String> {
    let mut v = all_formulas(&["p", "q(X)", "q(a)", "X = a", "#false"], true, &BIN, 2);
    v.extend(all_formulas(&["p", "q(X)"], true, &["->", "<-"], 3));
    v.sort();
    v.dedup();
    v
}
