//! C17: substitution of a term for a variable never captures.
use crate::c07::assignments;
use crate::dom::*;
use crate::ground::G;
use crate::report::*;
use crate::sem::*;
use crate::tt::*;
use anthem::syntax_tree::fol::sigma_0 as fol;
use rayon::prelude::*;
use serde_json::{json, Value};
use std::cell::RefCell;
use std::rc::Rc;

thread_local! {
    static SP: RefCell<Option<Rc<Space>>> = RefCell::new(None);
}
fn space(n: usize) -> Rc<Space> {
    SP.with(|c| {
        let mut c = c.borrow_mut();
        if c.as_ref().map_or(true, |s| s.nvars != n) {
            *c = Some(Rc::new(Space::new(n)));
        }
        c.as_ref().unwrap().clone()
    })
}

pub fn formulas(quick: bool) -> Vec<String> {
    let atoms_all = [
        "r(X,Y)", "q(X)", "r(X,Y1)", "r(Y,Y1)", "q(X$i)", "r(X$i,Y$i)", "r(X$i,Y1$i)", "X = Y",
        "X$i = Y$i + 1", "X < Y1", "q(X$s)", "r(X$s,Y)", "r(Y$i,Y2$i)", "r(X,X$i)",
        // chained comparisons: the substituted variable (and the binder to be renamed) in a later guard
        "Y2 < Y < X", "Y$i <= Y1$i < X$i", "Y < Y1 = X",
    ];
    let atoms_small = ["r(X,Y)", "r(X,Y1)", "r(X$i,Y$i)", "r(X$i,Y1$i)", "r(X$s,Y)", "X = Y"];
    let vars = ["X", "Y", "Y1", "Y2", "X$i", "Y$i", "Y1$i", "X$s", "Y$s"];
    let mut blocks: Vec<String> = vars.iter().map(|s| s.to_string()).collect();
    for a in vars {
        for b in vars {
            blocks.push(format!("{a} {b}"));
        }
    }
    let qs = ["forall", "exists"];
    let mut out: Vec<String> = atoms_all.iter().map(|s| s.to_string()).collect();
    // Q b (A)
    for q in qs {
        for b in &blocks {
            for a in atoms_all {
                out.push(format!("{q} {b} ({a})"));
            }
        }
    }
    // Q b (A op B)
    for (qi, q) in qs.iter().enumerate() {
        for (bi, b) in blocks.iter().enumerate() {
            if quick && (bi + qi) % 2 == 1 {
                continue;
            }
            for op in ["and", "->"] {
                for a in atoms_small {
                    for c in atoms_small {
                        out.push(format!("{q} {b} (({a}) {op} ({c}))"));
                    }
                }
            }
        }
    }
    // Q b (A op Q2 b2 (B)),  A op Q b (B),  Q b (Q2 b2 (A))
    for q in qs {
        for b in vars {
            for q2 in qs {
                for b2 in vars {
                    for a in atoms_small {
                        for c in atoms_small {
                            if quick && (a.len() + c.len() + b.len() + b2.len()) % 3 != 0 {
                                continue;
                            }
                            out.push(format!("{q} {b} (({a}) and {q2} {b2} ({c}))"));
                            out.push(format!("{q} {b} ({q2} {b2} (({a}) or ({c})))"));
                        }
                    }
                }
            }
            for a in atoms_all {
                for c in atoms_small {
                    out.push(format!("({a}) and {q} {b} ({c})"));
                    out.push(format!("{q} {b} ({c}) -> ({a})"));
                    out.push(format!("not {q} {b} (({c}) <-> ({a}))"));
                }
            }
        }
    }
    // blocks of three, chained fresh-name candidates
    for q in qs {
        for a in ["r(X,Y) and r(Y1,Y2)", "r(X$i,Y$i) and r(Y1$i,Y2$i)", "r(X,Y) and r(X,Y1)"] {
            for b in ["Y Y1 Y2", "Y Y1", "Y1 Y", "Y$i Y1$i Y2$i", "Y$i Y1$i", "Y Y$i", "Y Y1$i"] {
                out.push(format!("{q} {b} ({a})"));
                out.push(format!("{q} {b} ({a}) and q(Y1)"));
                out.push(format!("{q} {b} (exists Y11 ({a} and q(Y11)))"));
            }
        }
    }
    out
}

pub fn subst_pairs() -> Vec<(&'static str, Vec<&'static str>)> {
    vec![
        ("X", vec!["Y", "X", "Y1", "a", "5", "Y$i + 1", "X$i + Y$i", "Y$s", "Y$i + Y1$i", "#inf", "Y2"]),
        ("Y", vec!["X", "Y1", "1", "Y1$i"]),
        ("X$i", vec!["Y$i", "X$i", "5", "Y$i + 1", "X$i + Y$i", "Y$i + Y1$i", "Y1$i * Y2$i", "-Y$i", "Y1$i"]),
        ("X$s", vec!["Y$s", "a", "X$s"]),
        // the substituted variable is itself the first fresh-name candidate of a binder that has to be
        // renamed (and need not occur in the formula at all)
        ("Y1", vec!["Y", "X", "Y2", "Y$i + 1"]),
        ("Y2", vec!["Y", "Y1"]),
        ("Y1$i", vec!["Y$i", "Y$i + 1", "X$i + Y$i", "5"]),
        ("Y1$s", vec!["Y$s", "a"]),
    ]
}

pub struct Case {
    pub formula: fol::Formula,
    pub var: fol::Variable,
    pub term: fol::GeneralTerm,
}

/// None = holds; Some(description) = violated
pub fn check(c: &Case, interps: &mut u64, nontrivial: &mut Vec<u64>) -> Option<Value> {
    let active = vec![Val::Int(1), Val::Int(2), Val::sym("a")];
    let u = Universe::new(&[("q".into(), 1), ("r".into(), 2)], &active);
    let sp = space(u.len());
    let syms = vec!["a".to_string()];
    let result = c.formula.clone().substitute(c.var.clone(), c.term.clone());
    // free-variable equation
    let fvf = c.formula.free_variables();
    let mut expect: Vec<fol::Variable> = fvf.iter().filter(|v| **v != c.var).cloned().collect();
    if fvf.contains(&c.var) {
        for v in c.term.variables() {
            if !expect.contains(&v) {
                expect.push(v);
            }
        }
    }
    let got: Vec<fol::Variable> = result.free_variables().into_iter().collect();
    let same = expect.len() == got.len() && expect.iter().all(|v| got.contains(v));
    if !same {
        return Some(json!({"kind": "free variables", "result": result.to_string(),
            "expected_free": expect.iter().map(|v| v.to_string()).collect::<Vec<_>>(),
            "got_free": got.iter().map(|v| v.to_string()).collect::<Vec<_>>()}));
    }
    // semantic equation over all assignments and interpretations
    let mut vars: Vec<fol::Variable> = fvf.iter().cloned().collect();
    for v in c.term.variables() {
        if !vars.contains(&v) {
            vars.push(v);
        }
    }
    if !vars.contains(&c.var) {
        vars.push(c.var.clone());
    }
    let outer = slice_for(3, &syms);
    let inner = outer.widened(6);
    for a in assignments(&vars, &active) {
        let mut g1 = G::new(&u, outer.clone(), inner.clone());
        for (v, x) in vars.iter().zip(a.iter()) {
            g1.bind(&v.name, v.sort, x.clone());
        }
        let tv = g1.gen(&c.term);
        let p1 = g1.ground(&result);
        let mut g2 = G::new(&u, outer.clone(), inner.clone());
        for (v, x) in vars.iter().zip(a.iter()) {
            g2.bind(&v.name, v.sort, x.clone());
        }
        g2.bind(&c.var.name, c.var.sort, tv.clone());
        let p2 = g2.ground(&c.formula);
        *interps += sp.bits;
        if p1 == p2 {
            // structurally identical ground formulas: equal on every interpretation
            if nontrivial.len() < 4 {
                let t2 = sp.cl(&p2);
                let cnt = sp.count(&t2);
                if cnt != 0 && cnt != sp.bits {
                    nontrivial.push(hash_of(&t2));
                }
            }
            continue;
        }
        let t1 = sp.cl(&p1);
        let t2 = sp.cl(&p2);
        let d = xor(&t1, &t2);
        if let Some(idx) = sp.first_set(&d) {
            let asg: Vec<(String, String)> = vars
                .iter()
                .zip(a.iter())
                .map(|(v, x)| (v.to_string(), x.to_string()))
                .collect();
            return Some(json!({"kind": "truth value", "result": result.to_string(), "assignment": asg,
                "term_value": tv.to_string(), "interpretation": describe_cl(&u, idx),
                "substituted_formula_true": sp.get(&t1, idx), "original_under_updated_assignment_true": sp.get(&t2, idx)}));
        }
    }
    None
}

pub fn run(run: &Run) {
    let quick = run.quick();
    let fs = formulas(quick);
    let pairs = subst_pairs();
    run.set_extra("formulas_generated", json!(fs.len()));
    run.set_rule("every (formula, variable, sort-compatible term) with formula from the binder-heavy families (single/double/triple binder blocks over X,Y,Y1,Y2 at three sorts, nested two levels, all five connectives + negation), variable in {X,Y,X$i,X$s} and in {Y1,Y2,Y1$i,Y1$s} (the fresh-name candidates of the binders), term from the listed set (incl. two-variable terms whose second variable is the first fresh-name candidate) x all assignments over {1,2,a} x all classical interpretations of q/1, r/2; non-trivial = distinct non-constant truth table of the original formula");
    run.assume("truth values are compared classically (substitution is connective-agnostic; every connective occurs in the formula set)");
    let idx: Vec<usize> = (0..fs.len()).collect();
    let seed = run.seed as usize;
    let total = fs.len();
    idx.par_iter().for_each(|&i0| {
        let i = (i0 + seed) % total;
        let text = &fs[i];
        let _w = run.watch("formula", "formula", text);
        let Ok(f) = text.parse::<fol::Formula>() else {
            run.skipped.fetch_add(1, std::sync::atomic::Ordering::Relaxed);
            run.sample_force(json!({"unparsed": text}));
            return;
        };
        let mut interps = 0;
        let mut nt = vec![];
        for (vs, terms) in &pairs {
            let var: fol::Variable = vs.parse().unwrap();
            for ts in terms {
                let term: fol::GeneralTerm = ts.parse().unwrap();
                // sort compatibility as documented by the panics in GeneralTerm::substitute
                let ok = match var.sort {
                    fol::Sort::General => true,
                    fol::Sort::Integer => matches!(term, fol::GeneralTerm::IntegerTerm(_)),
                    fol::Sort::Symbol => matches!(term, fol::GeneralTerm::SymbolicTerm(_)),
                };
                if !ok {
                    continue;
                }
                let case = Case { formula: f.clone(), var: var.clone(), term };
                run.state();
                let r = std::panic::catch_unwind(std::panic::AssertUnwindSafe(|| {
                    check(&case, &mut interps, &mut nt)
                }));
                match r {
                    Err(_) => run.violation(
                        format!("panic|{text}|{vs}|{ts}"),
                        json!({"kind": "panic", "formula": text, "variable": vs, "term": ts}),
                    ),
                    Ok(Some(d)) => run.violation(
                        format!("{}|{text}|{vs}|{ts}", d["kind"].as_str().unwrap_or("")),
                        json!({"formula": text, "variable": vs, "term": ts, "detail": d}),
                    ),
                    Ok(None) => {}
                }
            }
        }
        run.trans(interps);
        for h in nt {
            run.observe(h);
        }
        if i < 2 || i + 1 == total {
            run.sample(json!({"formula": text, "substitutions": pairs.iter().map(|(v, t)| format!("{v} := {t:?}")).collect::<Vec<_>>()}));
        }
    });
}

pub fn replay(v: &Value) -> i32 {
    let r = &v["replay"];
    let (Some(ft), Some(vs), Some(ts)) = (r["formula"].as_str(), r["variable"].as_str(), r["term"].as_str()) else {
        return 2;
    };
    let case = Case {
        formula: ft.parse().unwrap(),
        var: vs.parse().unwrap(),
        term: ts.parse().unwrap(),
    };
    let (mut n, mut nt) = (0, vec![]);
    let a = check(&case, &mut n, &mut nt);
    let b = check(&case, &mut n, &mut nt);
    if a != b {
        println!("replay: NON-DETERMINISTIC");
        return 2;
    }
    println!("replay ({ft})[{vs} := {ts}]: {}", serde_json::to_string(&a).unwrap());
    if a.is_some() {
        1
    } else {
        0
    }
}
