//! C06: TPTP rendering of a formula preserves its meaning.
use crate::dom::*;
use crate::ground::G;
use crate::report::*;
use crate::sem::*;
use crate::tff;
use crate::tt::*;
use anthem::syntax_tree::fol::sigma_0 as fol;
use anthem::verif::{AnnotatedFormula, Problem, Role};
use rayon::prelude::*;
use serde_json::{json, Value};
use std::collections::HashMap;

const RELS: [&str; 6] = ["=", "!=", "<", "<=", ">", ">="];

pub fn comparisons(quick: bool) -> Vec<String> {
    let ops_all = [
        "X$i", "1", "-1", "n$i", "X$i + 1", "-X$i", "-(-1)", "2 * Y$i", "X", "#inf", "#sup", "g$g", "a", "X$s", "s$s",
        // placeholders that occur only as operands of an arithmetic term
        "m$i + 1", "1 - k$i", "-j$i",
    ];
    let mut out = vec![];
    for a in ops_all {
        for r in RELS {
            for b in ops_all {
                out.push(format!("{a} {r} {b}"));
            }
        }
    }
    let ops6 = ["X$i", "1", "X", "a", "#inf", "n$i"];
    for (i, a) in ops6.iter().enumerate() {
        for (j, b) in ops6.iter().enumerate() {
            for (k, c) in ops6.iter().enumerate() {
                for (x, r1) in RELS.iter().enumerate() {
                    for (y, r2) in RELS.iter().enumerate() {
                        if quick && (i + j + k + x + y) % 2 == 1 {
                            continue;
                        }
                        out.push(format!("{a} {r1} {b} {r2} {c}"));
                    }
                }
            }
        }
    }
    let (ops3, rels3): (Vec<&str>, Vec<&str>) = if quick {
        (vec!["X$i", "1", "X"], vec!["<", "=", ">="])
    } else {
        (vec!["X$i", "1", "X", "a"], RELS.to_vec())
    };
    for a in &ops3 {
        for b in &ops3 {
            for c in &ops3 {
                for d in &ops3 {
                    for r1 in &rels3 {
                        for r2 in &rels3 {
                            for r3 in &rels3 {
                                out.push(format!("{a} {r1} {b} {r2} {c} {r3} {d}"));
                            }
                        }
                    }
                }
            }
        }
    }
    let (ops4, rels4): (Vec<&str>, Vec<&str>) = if quick {
        (vec!["X$i", "2"], vec!["<", "!="])
    } else {
        (vec!["X$i", "2", "X"], vec!["<", "!=", ">=", "="])
    };
    fn rec(k: usize, ops: &[&str], rels: &[&str], cur: String, out: &mut Vec<String>) {
        if k == 0 {
            out.push(cur);
            return;
        }
        for r in rels {
            for o in ops {
                rec(k - 1, ops, rels, format!("{cur} {r} {o}"), out);
            }
        }
    }
    for a in &ops4 {
        rec(4, &ops4, &rels4, a.to_string(), &mut out);
    }
    // boundary numerals
    for n in ["9223372036854775807", "-9223372036854775807", "-9223372036854775808", "0", "-0"] {
        out.push(format!("X$i = {n}"));
        out.push(format!("X$i + {n} < 0"));
        out.push(format!("X > {n}"));
        out.push(format!("{n} <= X$i < {n}"));
    }
    out
}

pub fn contexts() -> Vec<&'static str> {
    vec![
        "{}", "not ({})", "({}) and p", "p or ({})", "({}) -> p", "p <- ({})", "p <-> ({})", "not (p and ({}))",
        "forall Y (({}) or q(Y))", "exists Y$i (({}) and q(Y$i))", "not not ({})", "(({}) or p) and q(a)",
        "({}) -> (({}) -> p)", "not ({}) <-> not p",
    ]
}

pub fn other_formulas() -> Vec<String> {
    let mut v: Vec<String> = vec![];
    let atoms = ["p", "q(X)", "q(X$i)", "q(a)", "q(-1)", "q(n$i)", "q(X$s)", "q(g$g)", "q(s$s)", "q(X$i + 1)", "q(#inf)", "#true", "#false", "X = Y"];
    for a in atoms {
        v.push(a.to_string());
        v.push(format!("not {a}"));
        for b in atoms {
            for op in ["and", "or", "->", "<-", "<->"] {
                v.push(format!("({a}) {op} ({b})"));
                for c in ["p", "q(X)"] {
                    for op2 in ["and", "or", "->", "<-", "<->"] {
                        v.push(format!("(({a}) {op} ({b})) {op2} ({c})"));
                        v.push(format!("({c}) {op2} (({a}) {op} ({b}))"));
                    }
                }
            }
        }
    }
    for f in crate::enum_fol::family_g() {
        v.push(f);
    }
    for f in crate::enum_fol::family_f() {
        v.push(f);
    }
    v
}

pub fn close(f: &fol::Formula) -> Vec<fol::Formula> {
    let fv: Vec<fol::Variable> = f.free_variables().into_iter().collect();
    if fv.is_empty() {
        vec![f.clone()]
    } else {
        vec![
            f.clone().quantify(fol::Quantifier::Forall, fv.clone()),
            f.clone().quantify(fol::Quantifier::Exists, fv),
        ]
    }
}

pub struct Setup {
    pub u: Universe,
    pub sp: Space,
    pub syms: Vec<String>,
}

pub fn setup() -> Setup {
    let active = vec![Val::Int(1), Val::Int(2), Val::sym("a")];
    let u = Universe::new(&[("p".into(), 0), ("q".into(), 1)], &active);
    let sp = Space::new(u.len());
    Setup { u, sp, syms: vec!["a".into(), "b".into()] }
}

pub fn render(f: &fol::Formula) -> String {
    Problem::with_name("t")
        .add_annotated_formulas(vec![AnnotatedFormula { name: "f".into(), role: Role::Conjecture, formula: f.clone() }])
        .to_string()
}

/// Some(description) if the rendering of the closed formula `f` does not preserve its meaning
pub fn check(st: &Setup, f: &fol::Formula, interps: &mut u64, nontrivial: &mut Vec<u64>) -> Option<(String, Value)> {
    let text = render(f);
    let line = text.lines().last().unwrap_or("").to_string();
    let mut den = tff::Denote::identity();
    let fcs: Vec<fol::FunctionConstant> = f.function_constants().into_iter().collect();
    for c in &fcs {
        let suffix = match c.sort {
            fol::Sort::General => "g",
            fol::Sort::Integer => "i",
            fol::Sort::Symbol => "s",
        };
        den.placeholders.insert(format!("{}_{}", c.name, suffix), (c.name.clone(), c.sort));
    }
    let rp = tff::read_problem(&text, &den);
    if !rp.diags.is_empty() {
        let d = &rp.diags[0];
        return Some((format!("rendering_rejected:{}", d.code), json!({"kind": "rendered formula is not well-formed TFF", "diagnostic": d.detail, "code": d.code, "tptp": line})));
    }
    let Some((_, _, back)) = rp.formulas.iter().find(|(n, _, _)| n == "f") else {
        return Some(("rendering_rejected:missing".into(), json!({"kind": "formula not found in rendering", "tptp": line})));
    };
    let back = match back {
        Ok(b) => b,
        Err(e) => return Some(("rendering_rejected:untranslatable".into(), json!({"kind": "reader cannot interpret the rendered formula", "why": e, "tptp": line}))),
    };
    // placeholder values
    let mut asgs: Vec<HashMap<(String, fol::Sort), Val>> = vec![HashMap::new()];
    for c in &fcs {
        let dom: Vec<Val> = match c.sort {
            fol::Sort::Integer => vec![Val::Int(1), Val::Int(2), Val::Int(7)],
            fol::Sort::General => vec![Val::Int(1), Val::sym("a"), Val::Inf],
            fol::Sort::Symbol => vec![Val::sym("a"), Val::sym("b")],
        };
        let mut n = vec![];
        for a in &asgs {
            for d in &dom {
                let mut x = a.clone();
                x.insert((c.name.clone(), c.sort), d.clone());
                n.push(x);
            }
        }
        asgs = n;
    }
    let mut found: [Option<Value>; 2] = [None, None];
    for (wi, w) in [5i128, 8].into_iter().enumerate() {
        let outer = slice_for(w, &st.syms);
        let inner = outer.widened(w + 6);
        for a in &asgs {
            let mut g1 = G::new(&st.u, outer.clone(), inner.clone());
            g1.consts = a.clone();
            let p1 = g1.ground(f);
            let mut g2 = G::new(&st.u, outer.clone(), inner.clone());
            g2.consts = a.clone();
            let p2 = g2.ground(back);
            *interps += st.sp.bits;
            let t1 = st.sp.cl(&p1);
            if wi == 0 {
                let c = st.sp.count(&t1);
                if c != 0 && c != st.sp.bits && nontrivial.len() < 4 {
                    nontrivial.push(hash_of(&t1));
                }
            }
            if p1 == p2 {
                continue;
            }
            let t2 = st.sp.cl(&p2);
            let d = xor(&t1, &t2);
            if let Some(idx) = st.sp.first_set(&d) {
                found[wi] = Some(json!({"kind": "meaning changed by rendering", "tptp": line, "read_back": back.to_string(),
                    "placeholders": a.iter().map(|(k, v)| format!("{}${:?} = {}", k.0, k.1, v)).collect::<Vec<_>>(),
                    "interpretation": describe_cl(&st.u, idx), "source_true": st.sp.get(&t1, idx), "rendered_true": st.sp.get(&t2, idx)}));
                break;
            }
        }
    }
    match (&found[0], &found[1]) {
        (Some(d), Some(_)) => Some(("meaning".into(), d.clone())),
        (None, None) => None,
        (a, b) => Some(("window_unstable".into(), a.clone().or(b.clone()).unwrap())),
    }
}

/// classification of the rendering defect for known-finding identity
fn locus(f: &fol::Formula) -> String {
    fn has_chain(f: &fol::Formula) -> bool {
        match f {
            fol::Formula::AtomicFormula(fol::AtomicFormula::Comparison(c)) => c.guards.len() > 1,
            fol::Formula::AtomicFormula(_) => false,
            fol::Formula::UnaryFormula { formula, .. } => has_chain(formula),
            fol::Formula::BinaryFormula { lhs, rhs, .. } => has_chain(lhs) || has_chain(rhs),
            fol::Formula::QuantifiedFormula { formula, .. } => has_chain(formula),
        }
    }
    fn has_min(f: &fol::Formula) -> bool {
        f.to_string().contains("-9223372036854775808")
    }
    if has_min(f) {
        "numeral_isize_min".into()
    } else if has_chain(f) {
        "chained_comparison".into()
    } else {
        "other".into()
    }
}

pub fn run(run: &Run) {
    let quick = run.quick();
    let comps = comparisons(quick);
    let ctxs = contexts();
    let mut texts: Vec<String> = vec![];
    for c in &comps {
        for (ci, cx) in ctxs.iter().enumerate() {
            // every comparison in the first 8 contexts; the remaining contexts for a stride
            if ci >= 8 && quick && c.len() % 3 != 0 {
                continue;
            }
            texts.push(cx.replace("{}", c));
        }
    }
    texts.extend(other_formulas());
    let total = texts.len();
    run.set_extra("formulas_generated", json!(total));
    run.set_rule("every comparison chain of length 1-4 (operand mixes over integer/general/symbol terms, variables, placeholders of all three sorts, negative and boundary numerals, unary-minus nests; all relation mixes) in each of 14 connective/quantifier contexts, plus connective-nesting formulas of depth 2 and the rewrite/translation families; each closed universally and existentially, rendered through Problem's Display, read back by the independent TFF reader and compared on all interpretations of p/0, q/1 over {1,2,a} x all placeholder values; non-trivial = distinct non-constant truth table");
    run.assume("TFF read per TPTP v7+: `~` takes a unit formula (an infix equality is a unit), `&`/`|` not mixed without parentheses, `=>`,`<=`,`<=>` non-associative; preamble symbols given their standard meaning");
    let seed = run.seed as usize;
    let idx: Vec<usize> = (0..total).collect();
    idx.par_iter().for_each(|&i0| {
        let i = (i0 + seed) % total;
        let text = &texts[i];
        let _w = run.watch("formula", "formula", text);
        let Ok(f) = text.parse::<fol::Formula>() else {
            run.skipped.fetch_add(1, std::sync::atomic::Ordering::Relaxed);
            return;
        };
        let st = setup();
        for cf in close(&f) {
            run.state();
            let mut interps = 0;
            let mut nt = vec![];
            let r = std::panic::catch_unwind(std::panic::AssertUnwindSafe(|| check(&st, &cf, &mut interps, &mut nt)));
            run.trans(interps);
            for h in nt {
                run.observe(h);
            }
            let cft = cf.to_string();
            match r {
                Err(e) => {
                    let msg = e.downcast_ref::<String>().cloned().or_else(|| e.downcast_ref::<&str>().map(|s| s.to_string())).unwrap_or_default();
                    run.violation(format!("panic|{}", locus(&cf)), json!({"kind": "panic while rendering", "formula": cft, "message": msg}));
                }
                Ok(None) => {}
                Ok(Some((k, d))) => {
                    if k == "window_unstable" {
                        run.window_unstable.fetch_add(1, std::sync::atomic::Ordering::Relaxed);
                        run.sample_force(json!({"window_unstable": cft, "detail": d}));
                    } else {
                        run.violation(format!("{k}|{}", locus(&cf)), json!({"formula": cft, "detail": d}));
                    }
                }
            }
        }
        if i < 2 || i + 1 == total {
            run.sample(json!({"formula": text, "tptp": render(&close(&f)[0]).lines().last()}));
        }
    });
}

pub fn replay(v: &Value) -> i32 {
    let Some(t) = v["replay"]["formula"].as_str() else { return 2 };
    let Ok(f) = t.parse::<fol::Formula>() else { return 2 };
    let st = setup();
    let (mut n, mut nt) = (0, vec![]);
    let a = check(&st, &f, &mut n, &mut nt);
    let b = check(&st, &f, &mut n, &mut nt);
    if format!("{a:?}") != format!("{b:?}") {
        println!("replay: NON-DETERMINISTIC");
        return 2;
    }
    println!("replay `{t}`: {}", serde_json::to_string(&a).unwrap());
    if a.is_some() {
        1
    } else {
        0
    }
}
