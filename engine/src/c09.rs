//! C09 (every emitted problem is well-formed, well-typed, self-contained TFF) and
//! C12 (axioms anthem adds on its own are true; symbol-order chain).
use crate::c03;
use crate::dom::*;
use crate::ground::G;
use crate::report::*;
use crate::sem::*;
use crate::tasks::*;
use crate::tff;
use crate::tt::*;
use anthem::syntax_tree::fol::sigma_0 as fol;
use anthem::verif::{FormulaRepresentation, Problem, Role};
use rayon::prelude::*;
use serde_json::{json, Value};

#[derive(Clone, Copy, PartialEq)]
pub enum Mode {
    C09,
    C12,
}

pub struct Item {
    pub desc: Value,
    pub key: String,
    pub problems: Result<Vec<Problem>, String>,
    /// symbols of the input and the renaming applied (for C12's denotation map)
    pub strong: bool,
}

fn strong_renamings() -> Vec<Vec<(&'static str, &'static str)>> {
    vec![
        vec![],
        vec![("a", "r")],
        vec![("p", "_p")],
        vec![("q", "q_i"), ("p", "p_g")],
        vec![("a", "hp")],
        vec![("r", "a"), ("a", "r")],
        vec![("a", "a__s"), ("r", "a")],
        vec![("p", "hp"), ("q", "tp")],
        vec![("a", "b")],
        vec![("p", "general")],
        vec![("r", "c__infimum__")],
    ]
}

pub fn items(quick: bool) -> Vec<Box<dyn Fn() -> Vec<Item> + Send + Sync>> {
    let mut v: Vec<Box<dyn Fn() -> Vec<Item> + Send + Sync>> = vec![];
    // external tasks
    let ext = ext_tasks(true);
    let rens = stress_renamings();
    for (ti, t) in ext.into_iter().enumerate() {
        for (ri, ren) in rens.iter().enumerate() {
            if quick && ri != 0 && (ti + ri) % 7 != 0 {
                continue;
            }
            if !quick && ri != 0 && (ti + ri) % 2 != 0 {
                continue;
            }
            let t = rename_task(&t, ren);
            let ren_s = format!("{ren:?}");
            v.push(Box::new(move || {
                let mut out = vec![];
                for f in all_flags() {
                    let problems = build_external(&t, &f, fol::Direction::Universal, true);
                    out.push(Item {
                        desc: json!({"task": t.describe(), "renaming": ren_s, "flags": f.name()}),
                        key: format!("{}|{}", t.key(), f.name()),
                        problems,
                        strong: false,
                    });
                }
                out
            }));
        }
    }
    // special tasks aimed at symbol renaming / ordering
    for (l, r) in [
        ("a. p(a). p(a0).", "p(a). a. p(a0)."),
        ("a. p(a). p(a0). p(b).", "p(b). p(a0). p(a). a."),
        ("b. p(a). p(b). p(b0).", "p(a). p(b0). p(b). b."),
        ("p(a). p(b). p(c).", "p(c). p(b). p(a)."),
        ("p(a). p(b). p(c). p(d).", "p(d). p(c). p(b). p(a)."),
        ("p(a). p(a__s). a.", "a. p(a__s). p(a)."),
        ("p(a). p(_a). p(a_).", "p(_a). p(a_). p(a)."),
        // predicates s and s__s next to symbols s, s0, sZ, s__s (renaming / ordering of mangled names)
        ("a :- q(a), q(aZ). a__s :- a.", "a__s :- a. a :- q(aZ), q(a)."),
        ("a :- q(a), q(a0), q(aZ), q(a_). a__s :- a.", "a__s :- a. a :- q(a_), q(aZ), q(a0), q(a)."),
        ("a. a__s. q(a). q(a__s). q(a0).", "q(a0). q(a__s). q(a). a__s. a."),
        ("b :- q(b), q(b0). b__s :- q(b__s).", "b__s :- q(b__s). b :- q(b0), q(b)."),
        // the same with symbols named like the h-/t-copies (strong equivalence prefixes predicates)
        ("a :- q(ha), q(haZ). a__s :- a.", "a__s :- a. a :- q(haZ), q(ha)."),
        ("a :- q(ta), q(ta0), q(ta_). a__s :- a.", "a__s :- a. a :- q(ta_), q(ta0), q(ta)."),
        ("a. q(ha). q(ha__s). q(ha0).", "q(ha0). q(ha__s). q(ha). a."),
        // symbols named like h-/t-copies, in every comparison position
        ("p. q(X) :- r(X), tp != X.", "q(X) :- r(X), tp != X. p."),
        ("p. q(X) :- r(X), X != hp, hp < X.", "q(X) :- r(X), hp < X, X != hp. p."),
        ("r. q(X) :- s(X), r != X, X = r.", "q(X) :- s(X), X = r, r != X. r."),
        // a symbolic constant named like a predicate of arity >= 1 (under strong equivalence: like its h-/t-copy),
        // with constants that sort between the name and name__s
        ("q(v2). q(v10). q(v9). r :- v10 < v2.", "q(v9). q(v10). q(v2). r."),
        ("q(hq). q(hq0). r :- hq < hq0.", "q(hq0). q(hq). r."),
        ("q(tq). q(tq_). q(tqZ). s(X) :- q(X), X != tq.", "q(tqZ). q(tq_). q(tq). s(X) :- q(X), tq != X."),
        ("q(X,Y) :- s(X), s(Y). s(hq). s(hq1).", "s(hq1). s(hq). q(X,Y) :- s(Y), s(X)."),
    ] {
        let (l, r) = (l.to_string(), r.to_string());
        v.push(Box::new(move || {
            let mut out = vec![];
            for f in all_flags() {
                for (rn, rep) in [("tau-star", FormulaRepresentation::TauStar), ("mu", FormulaRepresentation::Mu)] {
                    let problems = build_strong(&l, &r, &f, rep, fol::Direction::Universal);
                    out.push(Item { desc: json!({"left": l, "right": r, "flags": f.name(), "representation": rn}), key: format!("strong|{l}|{r}|{}|{rn}", f.name()), problems, strong: true });
                }
            }
            out
        }));
    }
    let mut generated = gen_ext_tasks(true);
    generated.extend(gen_spec_tasks(true));
    for (gi, t) in generated.into_iter().enumerate() {
        if quick && gi % 3 != 0 {
            continue;
        }
        v.push(Box::new(move || {
            let mut out = vec![];
            for f in all_flags() {
                let problems = build_external(&t, &f, fol::Direction::Universal, true);
                out.push(Item { desc: json!({"task": t.describe(), "flags": f.name()}), key: format!("{}|{}", t.key(), f.name()), problems, strong: false });
            }
            out
        }));
    }
    for t in special_ext_tasks() {
        v.push(Box::new(move || {
            let mut out = vec![];
            for f in all_flags() {
                let problems = build_external(&t, &f, fol::Direction::Universal, true);
                out.push(Item { desc: json!({"task": t.describe(), "flags": f.name()}), key: format!("{}|{}", t.key(), f.name()), problems, strong: false });
            }
            out
        }));
    }
    // strong tasks
    let alpha = c03::rule_alphabet();
    let srens = strong_renamings();
    for (i, l) in alpha.iter().enumerate() {
        for (j, r) in alpha.iter().enumerate() {
            if (i + j) % (if quick { 5 } else { 2 }) != 0 {
                continue;
            }
            for (ri, ren) in srens.iter().enumerate() {
                if ri != 0 && (i + j + ri) % 3 != 0 {
                    continue;
                }
                let l = rename_words(l, ren);
                let r = rename_words(r, ren);
                let ren_s = format!("{ren:?}");
                v.push(Box::new(move || {
                    let mut out = vec![];
                    for f in all_flags() {
                        for (rn, rep) in [("tau-star", FormulaRepresentation::TauStar), ("mu", FormulaRepresentation::Mu)] {
                            let problems = build_strong(&l, &r, &f, rep, fol::Direction::Universal);
                            out.push(Item {
                                desc: json!({"left": l, "right": r, "renaming": ren_s, "flags": f.name(), "representation": rn}),
                                key: format!("strong|{l}|{r}|{}|{rn}", f.name()),
                                problems,
                                strong: true,
                            });
                        }
                    }
                    out
                }));
            }
        }
    }
    v
}

/// identity of a well-formedness defect (for matching known findings): diagnostic code plus
/// the class of the offending identifier, not the concrete input
fn classify(d: &tff::Diag) -> String {
    let det = &d.detail;
    let preamble = [
        "general", "symbol", "f__integer__", "f__symbolic__", "c__infimum__", "c__supremum__", "p__is_integer__",
        "p__is_symbolic__", "p__less_equal__", "p__less__", "p__greater_equal__", "p__greater__",
    ];
    if det.contains("illegal character `_`") {
        return "syntax:identifier_with_leading_underscore".into();
    }
    if d.code == "conflicting_decl" || d.code == "duplicate_decl" {
        for p in preamble {
            if det.contains(&format!("symbol {p}/")) || det.contains(&format!("type {p} ")) || det.contains(&format!("`{p}`")) {
                return format!("{}:user_identifier_equals_preamble_identifier", d.code);
            }
        }
    }
    if d.code == "conflicting_decl" && (det.contains("_i/0 is declared at two types") || det.contains("_g/0 is declared at two types") || det.contains("_s/0 is declared at two types")) {
        return "conflicting_decl:symbol_equals_mangled_placeholder".into();
    }
    let mut words: Vec<String> = vec![];
    for w in det.split_whitespace().take(12) {
        let w = w.trim_matches(|c: char| !c.is_alphanumeric() && c != '_' && c != '$' && c != '/');
        if w.contains("formula_") || w.chars().any(|c| c.is_ascii_digit()) {
            continue;
        }
        words.push(w.to_string());
    }
    format!("{}:{}", d.code, words.join("_"))
}

fn check_c09(run: &Run, it: &Item, p: &Problem) {
    let text = p.to_string();
    let c = tff::check(&text);
    run.trans(c.entries.len() as u64);
    run.observe(hash_of(&text.lines().skip(27).collect::<Vec<_>>()));
    // a declaration clash makes every use of the clashing symbol ill-typed: report the clash,
    // not its consequences
    let clash = c.diags.iter().any(|d| d.code == "conflicting_decl" || d.code == "duplicate_decl");
    for d in &c.diags {
        if clash && (d.code == "type" || d.code == "undeclared") {
            continue;
        }
        run.violation(
            format!("{}", classify(d)),
            json!({"item": it.desc, "problem": p.name, "diagnostic": d.detail, "code": d.code,
                   "all_codes": c.diags.iter().map(|x| x.code.clone()).collect::<Vec<_>>(),
                   "declarations_and_formulas": text.lines().skip(27).collect::<Vec<_>>()}),
        );
    }
}

/// symbols of the input texts of an item (programs, specification, user guide, outline)
fn input_symbols(desc: &Value) -> Vec<String> {
    use anthem::syntax_tree::asp::mini_gringo as asp;
    let mut out: Vec<String> = vec![];
    let mut add = |x: String| {
        if !out.contains(&x) {
            out.push(x)
        }
    };
    let (texts, spec): (Vec<String>, bool) = if !desc["task"].is_null() {
        let t = &desc["task"];
        (
            ["left", "right", "user_guide", "proof_outline"].iter().map(|k| t[*k].as_str().unwrap_or("").to_string()).collect(),
            t["left_is_spec"].as_bool().unwrap_or(false),
        )
    } else {
        (vec![desc["left"].as_str().unwrap_or("").to_string(), desc["right"].as_str().unwrap_or("").to_string()], false)
    };
    for (i, txt) in texts.iter().enumerate() {
        let as_program = i == 1 || (i == 0 && !spec);
        if as_program && i < 2 {
            if let Ok(p) = txt.parse::<asp::Program>() {
                for c in p.function_constants() {
                    add(c);
                }
            }
        } else if i == 2 {
            if let Ok(u) = txt.parse::<fol::UserGuide>() {
                for f in u.formulas() {
                    for c in f.formula.symbols() {
                        add(c);
                    }
                }
            }
        } else if let Ok(sp) = txt.parse::<fol::Specification>() {
            for f in &sp.formulas {
                for c in f.formula.symbols() {
                    add(c);
                }
            }
        }
    }
    out
}

/// denotation of a problem's symbol constants, derived from the INPUT: a constant `c` stands
/// for the input symbol `s` with c = s or c = s followed by one or more `__s` (the clash
/// renaming); a constant that is itself an input symbol stands for itself
fn denotation(p: &Problem, input: &[String]) -> std::collections::HashMap<String, String> {
    let mut m = std::collections::HashMap::new();
    for c in p.symbols() {
        if input.contains(&c) {
            continue;
        }
        let mut base = c.as_str();
        while let Some(b) = base.strip_suffix("__s") {
            base = b;
            if input.iter().any(|s| s == base) {
                m.insert(c.clone(), base.to_string());
                break;
            }
        }
    }
    m
}

fn check_c12(run: &Run, it: &Item, p: &Problem) {
    let text = p.to_string();
    // (1) symbol-order axioms, recognised by their shape in the parsed TFF text (not by name):
    // an axiom p__less__(f__symbolic__(A), f__symbolic__(B)) between two constants
    let input = input_symbols(&it.desc);
    // a constant that is an input symbol AND the clash-renamed form of another input symbol stands
    // for two symbols at once: no denotation makes sense (anthem's own TODO in rename_conflicting_symbols)
    let props: Vec<String> = p.predicates().into_iter().filter(|q| q.arity == 0).map(|q| q.symbol).collect();
    for c in p.symbols() {
        if let Some(base) = c.strip_suffix("__s") {
            if input.contains(&c) && input.iter().any(|s| s == base) && props.iter().any(|q| q == base) {
                run.violation(
                    "symbol_renaming:two_input_symbols_share_one_constant".into(),
                    json!({"item": it.desc, "problem": p.name, "constant": c, "input_symbols": [base, c], "kind": "the clash renaming s -> s__s collides with an input symbol literally named s__s"}),
                );
                return;
            }
        }
    }
    let den = denotation(p, &input);
    let mut order: Vec<(String, String)> = vec![];
    match tff::parse_file(&text) {
        Err(_) => {
            // the problem is not readable as TFF (C09's business, e.g. a leading underscore):
            // fall back to the line shape `tff(<name>, axiom, p__less__(f__symbolic__(A), f__symbolic__(B))).`
            for line in text.lines() {
                if let Some(k) = line.find(", axiom, p__less__(f__symbolic__(") {
                    let rest = &line[k + ", axiom, p__less__(f__symbolic__(".len()..];
                    let parts: Vec<&str> = rest.split("f__symbolic__(").collect();
                    if parts.len() == 2 && line.trim_end().ends_with("))).") {
                        let a = parts[0].split(')').next().unwrap_or("").to_string();
                        let b = parts[1].split(')').next().unwrap_or("").to_string();
                        order.push((a, b));
                    }
                }
            }
        }
        Ok(entries) => {
            for e in &entries {
                if let tff::Entry::Formula { role, formula, .. } = e {
                    if role != "axiom" {
                        continue;
                    }
                    if let tff::TForm::Pred(pn, args) = formula {
                        if pn == "p__less__" && args.len() == 2 {
                            let c = |t: &tff::TTerm| match t {
                                tff::TTerm::App(f, a) if f == "f__symbolic__" && a.len() == 1 => match &a[0] {
                                    tff::TTerm::App(cn, ca) if ca.is_empty() => Some(cn.clone()),
                                    _ => None,
                                },
                                _ => None,
                            };
                            if let (Some(a), Some(b)) = (c(&args[0]), c(&args[1])) {
                                order.push((a, b));
                            }
                        }
                    }
                }
            }
        }
    }
    // the constants of the problem: anthem's own Problem::symbols() UNITED with every constant that the
    // emitted text uses as `f__symbolic__(c)` (read off the text, so a symbols() that forgets an
    // occurrence cannot hide the constant from the coverage requirement)
    let mut symset: std::collections::BTreeSet<String> = p.symbols().into_iter().collect();
    {
        // placeholders of sort symbol are written the same way but declared as function constants:
        // they stand for an unknown symbol and are not part of the chain
        let placeholders: Vec<String> = text
            .lines()
            .filter(|l| l.starts_with("tff(type_function_constant_"))
            .filter_map(|l| l.split(", type, ").nth(1).and_then(|r| r.split(':').next()).map(|n| n.trim().to_string()))
            .collect();
        let pat = "f__symbolic__(";
        let mut rest = text.as_str();
        while let Some(k) = rest.find(pat) {
            rest = &rest[k + pat.len()..];
            let id: String = rest.chars().take_while(|c| c.is_ascii_alphanumeric() || *c == '_').collect();
            let lower_start = id.chars().next().map_or(false, |c| c.is_ascii_lowercase() || c == '_');
            if lower_start && rest[id.len()..].starts_with(')') && !placeholders.contains(&id) {
                symset.insert(id);
            }
        }
    }
    let syms: Vec<String> = symset.into_iter().collect();
    run.trans(order.len() as u64 + 1);
    let d = |s: &String| den.get(s).cloned().unwrap_or_else(|| s.clone());
    // two constants with the same denotation would be forced to be distinct: unsound
    for i in 0..syms.len() {
        for j in (i + 1)..syms.len() {
            if d(&syms[i]) == d(&syms[j]) {
                run.violation("symbol_order:two_constants_one_symbol".into(), json!({"item": it.desc, "problem": p.name, "constants": [syms[i], syms[j]]}));
            }
        }
    }
    for (a, b) in &order {
        if !(d(a) < d(b)) {
            run.violation(
                "symbol_order:false_axiom".into(),
                json!({"item": it.desc, "problem": p.name, "axiom": format!("{a} < {b}"), "denotations": [d(a), d(b)],
                       "kind": "ordering axiom is false in the standard (lexicographic) order of the symbols it denotes"}),
            );
        }
    }
    // chain covering all symbols: the axioms must connect every pair of distinct constants
    if syms.len() >= 2 {
        let mut sorted: Vec<String> = syms.clone();
        sorted.sort_by_key(|s| d(s));
        for w in sorted.windows(2) {
            // provable distinctness of adjacent constants needs a path; with true axioms only a
            // chain along the order can provide it
            let linked = reach(&order, &w[0], &w[1]);
            if !linked {
                run.violation(
                    "symbol_order:chain_gap".into(),
                    json!({"item": it.desc, "problem": p.name, "unlinked": [w[0], w[1]], "axioms": order.iter().map(|(a, b)| format!("{a} < {b}")).collect::<Vec<_>>(),
                           "kind": "no chain of ordering axioms links two constants"}),
                );
            }
        }
    }
    if !order.is_empty() {
        run.observe(hash_of(&order));
    }
    // (2) transition axioms of strong equivalence (recognised by shape): true exactly on H subset-of T
    if it.strong {
        let mut transitions: Vec<String> = vec![];
        for f in &p.formulas {
            if let Some((hn, tn)) = transition_shape(&f.formula) {
                if f.role != Role::Axiom {
                    continue;
                }
                let preds: Vec<(String, usize)> = f.formula.predicates().into_iter().map(|q| (q.symbol, q.arity)).collect();
                let active = vec![Val::Int(1), Val::sym("a")];
                let u = Universe::new(&preds, &active);
                if u.len() > 16 || preds.len() != 2 {
                    continue;
                }
                let sp = Space::new(u.len());
                let slice = slice_for(4, &["a".to_string()]);
                let mut g = G::new(&u, slice.clone(), slice.widened(8));
                let pf = g.ground(&f.formula);
                let t = sp.cl(&pf);
                let n = u.len() / 2;
                if preds[0].0 != hn || preds[1].0 != tn {
                    continue;
                }
                let mut sub = sp.full.clone();
                for i in 0..n {
                    let mut imp = sp.not(sp.var(i));
                    or_into(&mut imp, sp.var(n + i));
                    and_into(&mut sub, &imp);
                }
                run.trans(sp.count(&sub));
                let bad = and(&sub, &sp.not(&t));
                if let Some(idx) = sp.first_set(&bad) {
                    run.violation("transition:false".into(), json!({"item": it.desc, "problem": p.name, "axiom": f.formula.to_string(), "interpretation": describe_cl(&u, idx)}));
                }
                let loose = and(&sp.not(&sub), &t);
                if let Some(idx) = sp.first_set(&loose) {
                    run.violation("transition:too_weak".into(), json!({"item": it.desc, "problem": p.name, "axiom": f.formula.to_string(), "interpretation": describe_cl(&u, idx), "kind": "axiom admits an interpretation with H not inside T"}));
                }
                transitions.push(hn.clone());
                run.observe(hash_of(&f.formula.to_string()));
            }
        }
        // every h-copy occurring in the problem has a transition axiom
        for q in p.predicates() {
            if q.symbol.starts_with('h') && !transitions.contains(&q.symbol) {
                run.violation("transition:missing".into(), json!({"item": it.desc, "problem": p.name, "predicate": format!("{}/{}", q.symbol, q.arity)}));
            }
        }
    }
}

/// `forall X (hP(X) -> tP(X))` (or the propositional `hP -> tP`): returns the two predicate names
fn transition_shape(f: &fol::Formula) -> Option<(String, String)> {
    let inner = match f {
        fol::Formula::QuantifiedFormula { quantification, formula } if matches!(quantification.quantifier, fol::Quantifier::Forall) => &**formula,
        x => x,
    };
    if let fol::Formula::BinaryFormula { connective: fol::BinaryConnective::Implication, lhs, rhs } = inner {
        if let (fol::Formula::AtomicFormula(fol::AtomicFormula::Atom(a)), fol::Formula::AtomicFormula(fol::AtomicFormula::Atom(b))) = (&**lhs, &**rhs) {
            if a.terms == b.terms && a.predicate_symbol.starts_with('h') && b.predicate_symbol.starts_with('t') && a.predicate_symbol[1..] == b.predicate_symbol[1..] && a.terms.iter().all(|t| matches!(t, fol::GeneralTerm::Variable(_))) {
                return Some((a.predicate_symbol.clone(), b.predicate_symbol.clone()));
            }
        }
    }
    None
}

/// the 15+ preamble axioms, evaluated in the standard interpretation over windows
fn check_preamble(run: &Run) {
    let text = Problem::with_name("preamble").to_string();
    let den = tff::Denote::identity();
    let rp = tff::read_problem(&text, &den);
    for d in &rp.diags {
        if d.code != "conjecture_count" {
            run.violation(format!("preamble:{}", d.code), json!({"diagnostic": d.detail}));
        }
    }
    let u = Universe::default();
    let mut n = 0;
    for (name, role, f) in &rp.formulas {
        if role != "axiom" {
            continue;
        }
        n += 1;
        let f = match f {
            Ok(f) => f,
            Err(e) => {
                run.violation("preamble:untranslatable".into(), json!({"axiom": name, "why": e}));
                continue;
            }
        };
        // windows around 0 and around large constants: shift by evaluating with several windows
        for w in [3i128, 6] {
            let slice = slice_for(w, &["a".to_string(), "b".to_string()]);
            let mut g = G::new(&u, slice.clone(), slice.clone());
            g.no_solve = true;
            let p = g.ground(f);
            run.trans((2 * w as u64 + 1).pow(2));
            if p != P::T {
                run.violation(format!("preamble:false:{name}"), json!({"axiom": name, "formula": f.to_string(), "window": w, "value": format!("{p:?}")}));
            }
        }
        run.state();
        run.observe(hash_of(name));
    }
    run.set_extra("preamble_axioms_checked", json!(n));
    run.valid(n);
}

pub fn run(mode: Mode, run: &Run) {
    let quick = run.quick();
    let gens = items(quick);
    run.set_extra("task_groups_generated", json!(gens.len()));
    if mode == Mode::C09 {
        run.set_rule("every external task of the task alphabet (program or specification vs program, 6 user guides) and a stride of strong tasks, instantiated with the identifier stress renamings (leading underscore, _i/_g/_s/__s/_p suffixes, symbol named like a 0-ary predicate / mangled placeholder / preamble identifier / h-t copy), x all 8 flag combinations (x tau-star/mu for strong): every emitted problem is parsed and type-checked by the independent TFF reader; non-trivial = distinct problem body");
        run.assume("TFF symbols are identified by name and arity; `~ s = t` reads as ~(s = t)");
    } else {
        run.set_rule("the preamble axioms evaluated in the standard interpretation over integer windows [-3,3] and [-6,6] with symbols {_a,a,b,zz} (all assignments); for every problem of C09's task enumeration: every symbol_order axiom true under the denotation map (identity, s__s -> s) in lexicographic order, no two constants with one denotation, chain linking all constants; for strong tasks every transition axiom true exactly on interpretations with H subset-of T and present for every predicate; non-trivial = distinct axiom sets");
    }
    if mode == Mode::C12 {
        check_preamble(run);
    }
    let seed = run.seed as usize;
    let total = gens.len();
    let idx: Vec<usize> = (0..total).collect();
    idx.par_iter().for_each(|&i0| {
        let i = (i0 + seed) % total;
        let _w = run.watch("task_group", "group", &i.to_string());
        let its = match std::panic::catch_unwind(std::panic::AssertUnwindSafe(|| gens[i]())) {
            Ok(x) => x,
            Err(_) => {
                run.violation("panic:task_assembly".into(), json!({"group": i}));
                return;
            }
        };
        for it in its {
            match &it.problems {
                Err(e) => {
                    run.count(if e.starts_with("PARSE") { "inputs_rejected_by_parser" } else { "tasks_refused" }, 1);
                }
                Ok(ps) => {
                    run.count("tasks_accepted", 1);
                    for p in ps {
                        run.state();
                        let r = std::panic::catch_unwind(std::panic::AssertUnwindSafe(|| match mode {
                            Mode::C09 => check_c09(run, &it, p),
                            Mode::C12 => check_c12(run, &it, p),
                        }));
                        if r.is_err() {
                            run.violation("panic:problem_rendering".into(), json!({"item": it.desc, "problem": p.name}));
                        }
                    }
                    if i < 2 {
                        run.sample(json!({"item": it.desc, "problems": ps.iter().map(|p| p.name.clone()).collect::<Vec<_>>()}));
                    }
                }
            }
        }
    });
}

fn reach(edges: &[(String, String)], a: &String, b: &String) -> bool {
    let mut seen = vec![a.clone()];
    let mut stack = vec![a.clone()];
    while let Some(x) = stack.pop() {
        if &x == b {
            return true;
        }
        for (p, q) in edges {
            if *p == x && !seen.contains(q) {
                seen.push(q.clone());
                stack.push(q.clone());
            }
        }
    }
    false
}

pub fn replay(mode: Mode, v: &Value) -> i32 {
    let item = &v["replay"]["item"];
    let run = Run::new(if mode == Mode::C09 { "C09" } else { "C12" }, "quick");
    let f_of = |name: &str| all_flags().into_iter().find(|f| f.name() == name).unwrap_or_else(|| all_flags()[0].clone());
    let flags = f_of(item["flags"].as_str().unwrap_or(""));
    let (problems, strong) = if !item["task"].is_null() {
        let t = &item["task"];
        let task = ExtTask {
            left: t["left"].as_str().unwrap_or("").into(),
            left_is_spec: t["left_is_spec"].as_bool().unwrap_or(false),
            right: t["right"].as_str().unwrap_or("").into(),
            ug: t["user_guide"].as_str().unwrap_or("").into(),
            po: t["proof_outline"].as_str().unwrap_or("").into(),
        };
        (build_external(&task, &flags, fol::Direction::Universal, true), false)
    } else {
        let rep = if item["representation"].as_str() == Some("mu") { FormulaRepresentation::Mu } else { FormulaRepresentation::TauStar };
        (build_strong(item["left"].as_str().unwrap_or(""), item["right"].as_str().unwrap_or(""), &flags, rep, fol::Direction::Universal), true)
    };
    let it = Item { desc: item.clone(), key: String::new(), problems, strong };
    match &it.problems {
        Err(e) => {
            println!("replay: task not accepted: {e}");
            return 2;
        }
        Ok(ps) => {
            for p in ps {
                match mode {
                    Mode::C09 => check_c09(&run, &it, p),
                    Mode::C12 => check_c12(&run, &it, p),
                }
            }
        }
    }
    let vs = run.violations.lock().unwrap();
    let mut keys: Vec<String> = vs.iter().map(|x| x.key.clone()).collect();
    keys.sort();
    keys.dedup();
    println!("replay: violation keys {keys:?}");
    if keys.is_empty() { 0 } else { 1 }
}
