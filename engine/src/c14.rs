//! C14 / C15: print-parse round trips for mini-gringo programs and for target-language
//! theories, specifications and user guides.
use crate::enum_asp::*;
use crate::enum_fol::*;
use crate::report::*;
use anthem::convenience::{apply::Apply as _, compose::Compose as _};
use anthem::syntax_tree::asp::mini_gringo as asp;
use anthem::syntax_tree::fol::sigma_0 as fol;
use anthem::translating::classical_reduction::{completion::Completion as _, gamma::Gamma as _};
use anthem::translating::formula_representation::{mu::Mu as _, natural::Natural as _, tau_star::TauStar as _};
use rayon::prelude::*;
use serde_json::json;
use std::fmt::{Debug, Display};
use std::str::FromStr;

#[derive(Clone, Copy, PartialEq)]
pub enum Mode {
    C14,
    C15,
}

/// classification of a round-trip failure for finding identity
fn shape_class(printed: &str) -> String {
    // the printer production involved: look at the first two tokens of the offending text
    let toks: Vec<&str> = printed.split_whitespace().take(3).collect();
    let kind = |t: &str| -> &'static str {
        if t == "forall" || t == "exists" {
            "quantifier"
        } else if t == "not" {
            "not"
        } else if t.starts_with('-') {
            "minus"
        } else if t.chars().next().map_or(false, |c| c.is_ascii_uppercase() || c == '_') {
            "variable"
        } else if t.chars().next().map_or(false, |c| c.is_ascii_digit()) {
            "numeral"
        } else {
            "other"
        }
    };
    toks.iter().map(|t| kind(t)).collect::<Vec<_>>().join("_")
}

/// round trip on a text that anthem accepts as `T`; returns (states, violation)
fn round_trip<T>(run: &Run, what: &'static str, text: &str) -> bool
where
    T: FromStr + Display + PartialEq + Debug,
{
    let _w = run.watch_with("round_trip", "input", text, "node", what);
    let Ok(t0) = text.parse::<T>() else { return false };
    run.state();
    run.trans(2);
    let s1 = t0.to_string();
    run.observe(hash_of(&s1) % 4096);
    match s1.parse::<T>() {
        Err(_) => {
            let d0 = format!("{t0:?}");
            let class = if ["and", "or", "not", "forall", "exists"].iter().any(|k| d0.contains(&format!("predicate_symbol: \"{k}\"")) || d0.contains(&format!("Symbol(\"{k}\")"))) {
                "keyword_used_as_identifier".to_string()
            } else {
                offending_class::<T>(&s1)
            };
            run.violation(
                format!("printed_text_rejected|{class}"),
                json!({"kind": "printed text is not accepted", "node": what, "input": text, "printed": s1}),
            );
        }
        Ok(t1) => {
            if t1 != t0 {
                let (d0, d1) = (format!("{t0:?}"), format!("{t1:?}"));
                let neg = "relation: Less, term: IntegerTerm(UnaryOperation { op: Negative";
                let class = if d0.contains("ReverseImplication") && d1.matches(neg).count() > d0.matches(neg).count() {
                    "reverse_implication_read_as_less_than_minus".to_string()
                } else {
                    shape_class(&s1)
                };
                run.violation(
                    format!("tree_changed|{class}"),
                    json!({"kind": "printed text parses to a different tree", "node": what, "input": text, "printed": s1, "tree": format!("{t0:?}").chars().take(400).collect::<String>(), "reparsed": format!("{t1:?}").chars().take(400).collect::<String>()}),
                );
            } else {
                let s2 = t1.to_string();
                if s2 != s1 {
                    run.violation(format!("{what}:text_changed"), json!({"kind": "second print differs", "node": what, "first": s1, "second": s2}));
                }
            }
        }
    }
    true
}

/// the input uses a keyword (and, or, not, forall, exists) as a predicate symbol: `and ( )`
fn is_keyword_atom_case(text: &str) -> bool {
    let kw = ["and", "or", "not", "forall", "exists"];
    let toks: Vec<&str> = text.split_whitespace().collect();
    toks.windows(3).any(|w| kw.contains(&w[0]) && w[1] == "(" && w[2] == ")")
        || toks.windows(3).any(|w| w[0] == "(" && kw.contains(&w[1]) && w[2] == ")")
}

/// locate the smallest offending shape: a quantifier directly followed by an atomic formula
/// that begins with a variable is the known production
fn offending_class<T>(printed: &str) -> String {
    let toks: Vec<&str> = printed.split_whitespace().collect();
    for w in toks.windows(3) {
        let is_var = |t: &str| t.chars().next().map_or(false, |c| c.is_ascii_uppercase() || c == '_');
        let rel = ["=", "!=", "<", "<=", ">", ">="];
        if is_var(w[0]) && is_var(w[1]) && rel.contains(&w[2]) {
            return "quantifier_directly_over_comparison_starting_with_variable".into();
        }
    }
    for w in toks.windows(2) {
        let is_var = |t: &str| t.chars().next().map_or(false, |c| c.is_ascii_uppercase() || c == '_');
        if is_var(w[0]) && is_var(w[1].trim_end_matches(|c: char| !c.is_alphanumeric() && c != '$')) && !w[1].contains('(') {
            return "quantifier_directly_over_comparison_starting_with_variable".into();
        }
    }
    shape_class(printed)
}

/// every string of 1..=maxlen tokens over `alpha`, joined by each joiner; streamed (no list is
/// materialised), in parallel over the index space; returns the number of strings visited
fn for_each_token_string<F: Fn(&str) + Sync>(alpha: &[&str], maxlen: usize, joiners: &[&str], f: F) -> u64 {
    let k = alpha.len() as u64;
    let mut total = 0u64;
    for len in 1..=maxlen {
        let n = k.pow(len as u32);
        total += n * joiners.len() as u64;
        (0..n).into_par_iter().for_each(|mut idx| {
            let mut toks: Vec<&str> = Vec::with_capacity(len);
            for _ in 0..len {
                toks.push(alpha[(idx % k) as usize]);
                idx /= k;
            }
            toks.reverse();
            for j in joiners {
                f(&toks.join(j));
            }
        });
    }
    total
}

pub fn run(mode: Mode, run: &Run) {
    let quick = run.quick();
    if mode == Mode::C14 {
        run.set_rule("(i) every term of T_0..T_2 and depth-3 combinations over a 4-leaf alphabet (fully parenthesised by the generator, so in the image of the parser after one parse), every rule of C01's alphabets, programs of several rules, every head kind, empty bodies, #false heads; (ii) every string of <= 4 (thorough 7) tokens over a 15-token term alphabet (thorough 7) and a 16-token rule alphabet (thorough 6), each joined with and without blanks: for each text anthem accepts, parse(print(t)) == t and print is a fixpoint; non-trivial = distinct printed texts (hashed to 4096 buckets)");
    } else {
        run.set_rule("(i) every formula of families A-G, every integer/general/symbolic term shape, annotated formulas with every role x direction x name, user-guide entries of every kind, theories/specifications/user guides of several entries; (ii) every string of <= 4 (thorough 6) tokens over a 24-token formula alphabet; (iii) the output of tau-star, natural, mu, gamma, completion on C01's rules and of the three portfolios on C07's formulas: for each text anthem accepts, parse(print(t)) == t and print is a fixpoint; non-trivial = distinct printed texts (hashed to 4096 buckets)");
    }
    let lv = leaves(false);
    if mode == Mode::C14 {
        // (i) terms
        let mut terms = terms_upto(2, &lv);
        let small: Vec<String> = ["X", "1", "-1", "a"].iter().map(|s| s.to_string()).collect();
        let t1s = terms_exact(1, &small);
        for op in OPS {
            for a in &t1s {
                for b in &t1s {
                    terms.push(format!("({a}){op}({b})"));
                }
            }
        }
        for a in &t1s {
            terms.push(format!("-(-({a}))"));
            terms.push(format!("- ({a})"));
        }
        for n in ["- 1", "-(1)", "--1", "- -1", "-(-1)", "0-1", "1 - -1", "1--1", "2*-1", "2* -(1)", "(-1)..1", "-1..1", "-(1..2)", "1..2..3", "(1..2)..3", "1..(2..3)", "1-2-3", "1-(2-3)", "1/2/3", "1/(2/3)", "1\\2*3", "1*2\\3", "1+2*3", "(1+2)*3", "-X*Y", "-(X*Y)", "(-X)*Y", "X*-Y"] {
            terms.push(n.to_string());
        }
        run.set_extra("terms_generated", json!(terms.len()));
        terms.par_iter().for_each(|t| {
            round_trip::<asp::Term>(run, "term", t);
        });
        // rules / programs
        let mut progs = crate::c01::inputs(true);
        for h in ["p", "p(X)", "{p}", "{p(X)}", "", "#false"] {
            for b in ["", ":- q(X)", ":- not q(X), X < 1", ":- not not q, 1..2 = X; q(X)"] {
                progs.push(format!("{h} {b}."));
            }
        }
        progs.push("p. q :- p. {r(X)} :- q. :- r(1), not q.".into());
        progs.push("% comment\np.\n% another\nq :- p. %tail".into());
        progs.push("".into());
        run.set_extra("programs_generated", json!(progs.len()));
        progs.par_iter().for_each(|t| {
            round_trip::<asp::Program>(run, "program", t);
        });
        // (ii) token strings
        let ta = ["X", "1", "-1", "-", "+", "*", "/", "\\", "..", "(", ")", "a", "#inf", "0", "Y"];
        let n = for_each_token_string(&ta, if quick { 4 } else { 7 }, &["", " "], |t| {
            round_trip::<asp::Term>(run, "term", t);
        });
        run.set_extra("term_token_strings", json!(n));
        let ra = ["p", "q(X)", ":-", ",", ".", "not", "{", "}", "#false", "X", "=", "<", "1", "-", ";", "p(-1)"];
        // joined with blanks and without: `not=1` and `not = 1` are different token sequences for the grammar
        let n = for_each_token_string(&ra, if quick { 4 } else { 6 }, &[" ", ""], |t| {
            round_trip::<asp::Program>(run, "program", t);
        });
        run.set_extra("rule_token_strings", json!(n));
        return;
    }
    // ---------------------------------------------------------------- C15
    let mut formulas = family_g();
    formulas.extend(family_f());
    formulas.extend(family_ab());
    formulas.extend(family_c(true));
    formulas.extend(family_e());
    if !quick {
        formulas.extend(family_d(true));
    }
    for f in [
        "forall X (X = 3)", "exists X$i (X$i = 1)", "forall X X = 3", "forall X (not X = 3)", "not forall X (X = 3)", "forall X Y (X = Y)", "forall X (X)", "forall X exists Y (X = Y)",
        "forall X (X$i = 3)", "forall X$i (X$i)", "p and q and r", "p and (q and r)", "(p and q) and r", "p -> q -> r", "(p -> q) -> r", "p <- q <- r", "p <- (q <- r)", "p <-> q <-> r", "(p <-> q) <-> r",
        "p -> q <- r", "(p -> q) <- r", "p <-> q -> r", "p or q and r", "(p or q) and r", "not not p", "not (not p)", "not p and q", "not (p and q)", "forall X p(X) and q", "forall X (p(X) and q)",
        "1 < X <= 3 != Y", "X$i + 1 - 2 * 3 = -X$i", "-(1) = - 1", "--1 = 1", "-(-1) = 1", "X$i - (1 - 2) = X$i - 1 - 2", "X$i * (1 + 2) = X$i * 1 + 2", "(X$i * 1) * 2 = X$i * (1 * 2)",
        "p(a$i, b$g, c$s, X$g, Y$s)", "a$i = a$g", "#inf < X < #sup", "exists X$ (X$ = 1)", "exists _X (_X = 1)",
    ] {
        formulas.push(f.to_string());
    }
    run.set_extra("formulas_generated", json!(formulas.len()));
    formulas.par_iter().for_each(|t| {
        round_trip::<fol::Formula>(run, "formula", t);
        round_trip::<fol::Theory>(run, "theory", &format!("{t}."));
    });
    // terms
    for t in ["1", "-1", "X$i", "- X$i", "-(1)", "- 1", "--1", "-(-1)", "1 + 2 * 3", "(1 + 2) * 3", "1 - (2 - 3)", "1 - 2 - 3", "a$i * -1", "-(X$i + 1)", "- X$i + 1", "2 * - 1", "2 * -(1)", "2 - -1"] {
        round_trip::<fol::IntegerTerm>(run, "integer_term", t);
        round_trip::<fol::GeneralTerm>(run, "general_term", t);
    }
    for t in ["a", "a$s", "X$s", "X", "X$g", "#inf", "#sup", "a$g", "_a", "a_b"] {
        round_trip::<fol::GeneralTerm>(run, "general_term", t);
        round_trip::<fol::SymbolicTerm>(run, "symbolic_term", t);
    }
    // annotated formulas, specifications, user guides
    let mut specs = vec![];
    for role in ["assumption", "spec", "lemma", "definition", "inductive-lemma"] {
        for dir in ["", "(universal)", "(forward)", "(backward)"] {
            for name in ["", "[n]", "[_n]", "[a_1]"] {
                for f in ["p", "forall X (p(X) <-> X = 1)", "forall X (X = 1)", "forall N$i (N$i >= 0 -> p(N$i))", "p -> q -> r"] {
                    specs.push(format!("{role}{dir}{name}: {f}"));
                }
            }
        }
    }
    run.set_extra("annotated_formulas_generated", json!(specs.len()));
    specs.par_iter().for_each(|t| {
        round_trip::<fol::AnnotatedFormula>(run, "annotated_formula", t);
        round_trip::<fol::Specification>(run, "specification", &format!("{t}. spec: q."));
    });
    let mut ugs = vec![];
    for e in ["input: p/0", "input: p/12", "output: q/1", "input: n", "input: n -> integer", "input: n -> i", "input: n -> general", "input: n -> g", "input: n -> symbol", "input: n -> s", "assumption: forall X (p(X) -> X > 0)", "assumption(forward)[a]: p", "spec: p", "input: _p/1"] {
        ugs.push(e.to_string());
    }
    ugs.par_iter().for_each(|t| {
        round_trip::<fol::UserGuideEntry>(run, "user_guide_entry", t);
        round_trip::<fol::UserGuide>(run, "user_guide", &format!("{t}. output: zz/2."));
    });
    // (ii) token strings
    let fa = ["forall", "exists", "X", "X$i", "Y$", "p", "q(X)", "not", "and", "or", "->", "<-", "<->", "=", "<", "1", "-1", "-", "+", "(", ")", "#true", "a", "a$i"];
    let n = for_each_token_string(&fa, if quick { 4 } else { 6 }, &[" "], |t| {
        round_trip::<fol::Formula>(run, "formula", t);
    });
    run.set_extra("formula_token_strings", json!(n));
    // (iii) outputs of the translations and simplifications
    let rules = crate::c01::inputs(true);
    run.set_extra("translated_programs", json!(rules.len()));
    rules.par_iter().enumerate().for_each(|(i, t)| {
        if quick && i % 3 != 0 {
            return;
        }
        let _w = run.watch("translate_then_print", "program", t);
        let Ok(p) = t.parse::<asp::Program>() else { return };
        let mut outs: Vec<(&str, fol::Theory)> = vec![("tau-star", p.clone().tau_star()), ("mu", p.clone().mu())];
        if let Some(n) = p.clone().natural() {
            outs.push(("natural", n));
        }
        outs.push(("gamma", p.clone().tau_star().gamma()));
        if let Some(c) = p.clone().tau_star().completion(Default::default()) {
            outs.push(("completion", c));
        }
        for (what, th) in outs {
            run.state();
            run.trans(1);
            let s = th.to_string();
            match s.parse::<fol::Theory>() {
                Ok(back) if back == th => {}
                Ok(_) => run.violation(format!("output_of_{what}:tree_changed"), json!({"kind": "translation output re-parses to a different tree", "translation": what, "program": t, "printed": s})),
                Err(_) => run.violation(format!("printed_text_rejected|{}", offending_class::<fol::Theory>(&s)), json!({"kind": "translation output is not accepted by the parser", "translation": what, "program": t, "printed": s})),
            }
        }
    });
    let sforms = crate::c07::inputs(true);
    sforms.par_iter().enumerate().for_each(|(i, t)| {
        if quick && i % 4 != 0 {
            return;
        }
        let _w = run.watch("simplify_then_print", "formula", t);
        let Ok(f) = t.parse::<fol::Formula>() else { return };
        for pname in crate::c07::PORTFOLIOS {
            let fns = crate::c07::portfolio(pname);
            let mut simp = fns.clone().into_iter().compose();
            let outs = [simp(f.clone()), f.clone().apply(&mut simp)];
            let mut all = outs.to_vec();
            if let crate::c07::Fix::Done(g, _) = crate::c07::stepwise_fixpoint(&f, &fns) {
                all.push(g);
            }
            for g in all {
                run.state();
                run.trans(1);
                let th = fol::Theory { formulas: vec![g] };
                let s = th.to_string();
                match s.parse::<fol::Theory>() {
                    Ok(back) if back == th => {}
                    Ok(back) => run.violation(format!("tree_changed|{}", if format!("{th:?}").contains("ReverseImplication") && format!("{back:?}").contains("relation: Less, term: IntegerTerm(UnaryOperation { op: Negative") { "reverse_implication_read_as_less_than_minus" } else { "output_of_simplify" }), json!({"kind": "simplify output re-parses to a different tree", "portfolio": pname, "formula": t, "printed": s})),
                    Err(_) => run.violation(format!("printed_text_rejected|{}", offending_class::<fol::Theory>(&s)), json!({"kind": "simplify output is not accepted by the parser", "portfolio": pname, "formula": t, "printed": s})),
                }
            }
        }
    });
}

pub fn replay(mode: Mode, v: &serde_json::Value) -> i32 {
    let r = &v["replay"];
    let run = Run::new(if mode == Mode::C14 { "C14" } else { "C15" }, "quick");
    let text = r["input"].as_str().or_else(|| r["formula"].as_str()).or_else(|| r["program"].as_str()).unwrap_or("");
    let node = r["node"].as_str().unwrap_or(if mode == Mode::C14 { "program" } else { "theory" });
    let parsed = match node {
        "term" => round_trip::<asp::Term>(&run, "term", text),
        "program" => round_trip::<asp::Program>(&run, "program", text),
        "formula" => round_trip::<fol::Formula>(&run, "formula", text),
        "integer_term" => round_trip::<fol::IntegerTerm>(&run, "integer_term", text),
        "general_term" => round_trip::<fol::GeneralTerm>(&run, "general_term", text),
        "symbolic_term" => round_trip::<fol::SymbolicTerm>(&run, "symbolic_term", text),
        "annotated_formula" => round_trip::<fol::AnnotatedFormula>(&run, "annotated_formula", text),
        "specification" => round_trip::<fol::Specification>(&run, "specification", text),
        "user_guide_entry" => round_trip::<fol::UserGuideEntry>(&run, "user_guide_entry", text),
        "user_guide" => round_trip::<fol::UserGuide>(&run, "user_guide", text),
        _ => round_trip::<fol::Theory>(&run, "theory", text),
    };
    let vs = run.violations.lock().unwrap();
    println!("replay {node} `{text}`: accepted={parsed} violations={:?}", vs.iter().map(|x| x.key.clone()).collect::<Vec<_>>());
    if vs.is_empty() { 0 } else { 1 }
}
