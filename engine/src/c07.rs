//! C07 (simplification portfolios preserve meaning) and the termination/idempotence half
//! of C18, over the generated formula families.
use crate::c01::ht_space;
use crate::dom::*;
use crate::enum_fol::*;
use crate::ground::{sort_ok, G};
use crate::report::*;
use crate::sem::*;
use crate::tt::*;
use anthem::convenience::{apply::Apply as _, compose::Compose as _};
use anthem::syntax_tree::fol::sigma_0 as fol;
use anthem::verif::{CLASSIC, HT, INTUITIONISTIC};
use rayon::prelude::*;
use serde_json::{json, Value};
use std::collections::HashMap;

pub type Rw = fn(fol::Formula) -> fol::Formula;

pub const PORTFOLIOS: [&str; 3] = ["intuitionistic", "ht", "classic"];
pub const STRATEGIES: [&str; 3] = ["shallow", "recursive", "fixpoint"];

pub fn portfolio(name: &str) -> Vec<Rw> {
    match name {
        "intuitionistic" => [INTUITIONISTIC].concat(),
        "ht" => [INTUITIONISTIC, HT].concat(),
        "classic" => [INTUITIONISTIC, HT, CLASSIC].concat(),
        _ => unreachable!(),
    }
}

pub fn fn_names(name: &str) -> Vec<String> {
    let i = [
        "evaluate_comparisons",
        "apply_negation_definition_inverse",
        "apply_reverse_implication_definition",
        "apply_equivalence_definition_inverse",
        "remove_identities",
        "remove_annihilations",
        "remove_idempotences",
        "remove_orphaned_variables",
        "remove_empty_quantifications",
        "join_nested_quantifiers",
    ];
    let c = [
        "remove_double_negation",
        "substitute_defined_variables",
        "unstable::restrict_quantifier_domain",
        "unstable::extend_quantifier_scope",
        "unstable::simplify_transitive_equality",
    ];
    let mut v: Vec<String> = vec![];
    if INTUITIONISTIC.len() == i.len() {
        v.extend(i.iter().map(|s| format!("intuitionistic::{s}")));
    } else {
        v.extend((0..INTUITIONISTIC.len()).map(|k| format!("intuitionistic::fn#{k}")));
    }
    if name != "intuitionistic" {
        v.extend((0..HT.len()).map(|k| format!("ht::fn#{k}")));
    }
    if name == "classic" {
        if CLASSIC.len() == c.len() {
            v.extend(c.iter().map(|s| format!("classic::{s}")));
        } else {
            v.extend((0..CLASSIC.len()).map(|k| format!("classic::fn#{k}")));
        }
    }
    v
}

pub fn size(f: &fol::Formula) -> usize {
    match f {
        fol::Formula::AtomicFormula(_) => 1,
        fol::Formula::UnaryFormula { formula, .. } => 1 + size(formula),
        fol::Formula::BinaryFormula { lhs, rhs, .. } => 1 + size(lhs) + size(rhs),
        fol::Formula::QuantifiedFormula { formula, .. } => 1 + size(formula),
    }
}

pub enum Fix {
    Done(fol::Formula, usize),
    Cycle(usize, usize),
    Cap(String),
}

/// Fixpoint iteration re-run step by step with cycle detection.
pub fn stepwise_fixpoint(f: &fol::Formula, fns: &[Rw]) -> Fix {
    let mut simp = fns.to_vec().into_iter().compose();
    let mut seen: Vec<fol::Formula> = vec![f.clone()];
    let s0 = size(f);
    loop {
        let cur = seen.last().unwrap().clone();
        let next = cur.clone().apply(&mut simp);
        if next == cur {
            return Fix::Done(cur, seen.len() - 1);
        }
        if let Some(pos) = seen.iter().position(|x| *x == next) {
            return Fix::Cycle(pos, seen.len());
        }
        if size(&next) > 50 * s0 + 200 {
            return Fix::Cap(format!("size {} after {} passes", size(&next), seen.len()));
        }
        if seen.len() > 300 {
            return Fix::Cap(format!("{} passes without fixpoint", seen.len()));
        }
        seen.push(next);
    }
}

pub fn simplify(f: &fol::Formula, fns: &[Rw], strategy: &str) -> Result<fol::Formula, Fix> {
    let mut simp = fns.to_vec().into_iter().compose();
    match strategy {
        "shallow" => Ok(simp(f.clone())),
        "recursive" => Ok(f.clone().apply(&mut simp)),
        "fixpoint" => match stepwise_fixpoint(f, fns) {
            Fix::Done(g, _) => Ok(g),
            other => Err(other),
        },
        _ => unreachable!(),
    }
}

pub struct Sem {
    pub u: Universe,
    pub active: Vec<Val>,
    pub syms: Vec<String>,
}

pub fn generic_sem() -> Sem {
    let active = vec![Val::Int(1), Val::Int(2), Val::sym("a")];
    let u = Universe::new(&[("p".into(), 0), ("q".into(), 1)], &active);
    Sem {
        u,
        active,
        syms: vec!["a".into()],
    }
}

pub fn assignments(fv: &[fol::Variable], active: &[Val]) -> Vec<Vec<Val>> {
    let mut asgs: Vec<Vec<Val>> = vec![vec![]];
    for v in fv {
        let dom: Vec<Val> = active.iter().filter(|x| sort_ok(v.sort, x)).cloned().collect();
        let mut nn = vec![];
        for a in &asgs {
            for d in &dom {
                let mut y = a.clone();
                y.push(d.clone());
                nn.push(y);
            }
        }
        asgs = nn;
    }
    asgs
}

pub const GW: i128 = 5;

pub fn ground_with(sem: &Sem, f: &fol::Formula, fv: &[fol::Variable], a: &[Val], w: i128) -> P {
    let outer = slice_for(w, &sem.syms);
    let inner = outer.widened(w + 6);
    let mut g = G::new(&sem.u, outer, inner);
    for (v, x) in fv.iter().zip(a.iter()) {
        g.bind(&v.name, v.sort, x.clone());
    }
    g.ground(f)
}

/// Some((assignment, interpretation index, window-stable?)) if f and g differ.
/// classical: compare on total interpretations only.
pub fn differ(
    sem: &Sem,
    f: &fol::Formula,
    g: &fol::Formula,
    classical: bool,
    interps: &mut u64,
) -> Option<(Vec<(String, String)>, Value, bool)> {
    let mut fv: Vec<fol::Variable> = f.free_variables().into_iter().collect();
    for v in g.free_variables() {
        if !fv.contains(&v) {
            fv.push(v);
        }
    }
    let hs = ht_space(sem.u.len());
    let asgs = assignments(&fv, &sem.active);
    let mut found: [Option<(Vec<(String, String)>, Value)>; 2] = [None, None];
    for (wi, w) in [GW, GW + 3].into_iter().enumerate() {
        for a in &asgs {
            let p1 = ground_with(sem, f, &fv, a, w);
            let p2 = ground_with(sem, g, &fv, a, w);
            if p1 == p2 {
                continue;
            }
            let t1 = hs.sat(&p1);
            let t2 = hs.sat(&p2);
            let mut d = xor(&t1, &t2);
            if classical {
                and_into(&mut d, &hs.total);
                *interps += 1 << hs.n;
            } else {
                *interps += hs.nvalid();
            }
            if let Some(idx) = hs.sp.first_set(&d) {
                let asg = fv
                    .iter()
                    .zip(a.iter())
                    .map(|(v, x)| (v.to_string(), x.to_string()))
                    .collect();
                found[wi] = Some((
                    asg,
                    json!({"interpretation": describe_ht(&hs, &sem.u, idx),
                           "input_true": hs.sp.get(&t1, idx), "output_true": hs.sp.get(&t2, idx), "window": w}),
                ));
                break;
            }
        }
    }
    match (&found[0], &found[1]) {
        (None, None) => None,
        (Some(x), Some(_)) => Some((x.0.clone(), x.1.clone(), true)),
        (Some(x), None) | (None, Some(x)) => Some((x.0.clone(), x.1.clone(), false)),
    }
}

/// Find the first single rewrite step (function applied at a node) whose output is not
/// equivalent to its input; returns (function name, node before, node after).
pub fn attribute(
    sem: &Sem,
    f: &fol::Formula,
    pname: &str,
    strategy: &str,
    classical: bool,
) -> Option<(String, String, String)> {
    let fns = portfolio(pname);
    let names = fn_names(pname);
    let mut hit: Option<(String, String, String)> = None;
    let mut dummy = 0u64;
    let mut step = |node: fol::Formula| -> fol::Formula {
        let mut cur = node;
        for (i, rw) in fns.iter().enumerate() {
            let next = rw(cur.clone());
            if hit.is_none() && next != cur {
                let newfree = next
                    .free_variables()
                    .iter()
                    .any(|v| !cur.free_variables().contains(v));
                if newfree || differ(sem, &cur, &next, classical, &mut dummy).is_some() {
                    hit = Some((names[i].clone(), cur.to_string(), next.to_string()));
                }
            }
            cur = next;
        }
        cur
    };
    match strategy {
        "shallow" => {
            step(f.clone());
        }
        "recursive" => {
            f.clone().apply(&mut step);
        }
        _ => {
            let mut cur = f.clone();
            for _ in 0..50 {
                let next = cur.clone().apply(&mut step);
                if next == cur {
                    break;
                }
                cur = next;
            }
        }
    }
    hit
}

pub fn inputs(quick: bool) -> Vec<String> {
    if let Ok(path) = std::env::var("C07_INPUT_FILE") {
        // debugging aid: explore exactly the formulas of a file (one per line)
        return std::fs::read_to_string(path).unwrap_or_default().lines().map(|l| l.trim_end_matches('.').to_string()).filter(|l| !l.is_empty()).collect();
    }
    let mut v = family_g();
    // deep chains: full depth for the termination check only (C18); the semantic check (C07)
    // gets depth <= 3, where the unsolved quantifiers are still cheap to expand
    v.extend(family_h(3));
    v.extend(family_i());
    v.extend(family_j());
    v.extend(family_f());
    if quick {
        let ab = family_ab();
        // quick: atoms, F_1 and the prefixes over F_1 with a stride that keeps every
        // (prefix, connective) combination
        for (i, f) in ab.into_iter().enumerate() {
            if i < 2300 || i % 5 == 0 {
                v.push(f);
            }
        }
        v.extend(family_c(true));
        for (i, f) in family_d(true).into_iter().enumerate() {
            if i % 6 == 0 {
                v.push(f);
            }
        }
    } else {
        v.extend(family_ab());
        v.extend(family_c(false));
        v.extend(family_d(false));
        v.extend(family_e());
        v.extend(family_k());
    }
    v
}

#[derive(Clone, Copy, PartialEq)]
pub enum Mode {
    C07,
    C18,
}

pub fn run(mode: Mode, run: &Run) {
    let quick = run.quick();
    let mut all = inputs(quick);
    if mode == Mode::C18 {
        all.extend(family_h(if quick { 24 } else { 40 }));
    }
    if let Ok(path) = std::env::var("C07_DUMP_INPUTS") {
        let _ = std::fs::write(path, all.join("\n"));
    }
    let total = all.len();
    run.set_extra("inputs_generated", json!(total));
    run.set_extra("windows", json!([GW, GW + 3]));
    if mode == Mode::C07 {
        run.set_rule("every formula of families A-G, I (capture pressure: defined variables over re-binding quantifiers) and J (fresh-name pressure: every subset of the first fresh-name candidates already taken) (thorough: + K, complete connective depth 2 over five atoms / depth 3 over two atoms) (atoms, F_1, all quantifier prefixes over F_1, quantified 3-conjunctions, two-level quantifier shapes, depth-2 trees, rewrite-targeted patterns, translation shapes) x 3 portfolios x 3 strategies x all free-variable assignments over the active set x all interpretations; non-trivial = (formula, portfolio, strategy) whose output differs syntactically from its input, counted by distinct output");
    } else {
        run.set_rule("every formula of families A-G, I, J and the deep chains of family H (depth <= 24, thorough 40, every level needing its own pass) x 3 portfolios: fixpoint iteration re-run pass by pass with cycle detection, then the real apply_fixpoint compared and re-applied; every external task of the hand-written list assembled twice in one process (with another task in between) and compared byte-wise; non-trivial = distinct number-of-passes/outputs of formulas that changed");
    }
    if mode == Mode::C18 {
        // the same input twice IN ONE PROCESS: every task of the hand-written list is assembled twice (and once
        // more after a different task ran in between); the rendered problems must be byte-identical. The
        // repeated fresh-process runs of the determinism half cannot see state that survives inside a process.
        let tasks = crate::tasks::special_ext_tasks();
        let flags = crate::tasks::Flags { dec: anthem::verif::Decomposition::Sequential, simplify: true, eqb: true };
        let render = |t: &crate::tasks::ExtTask| -> Option<Vec<String>> {
            crate::tasks::build_external(t, &flags, fol::Direction::Universal, false).ok().map(|ps| ps.iter().map(|p| p.to_string()).collect())
        };
        let mut compared = 0u64;
        for (i, t) in tasks.iter().enumerate() {
            let _w = run.watch("task", "task_key", &t.key());
            let Some(first) = render(t) else { continue };
            let _ = render(&tasks[(i + 1) % tasks.len()]);
            let Some(second) = render(t) else { continue };
            compared += 1;
            run.state();
            run.trans(first.len() as u64 * 2);
            if first != second {
                let idx = first.iter().zip(second.iter()).position(|(a, b)| a != b).unwrap_or(0);
                let (a, b) = (first.get(idx).cloned().unwrap_or_default(), second.get(idx).cloned().unwrap_or_default());
                let line = a.lines().zip(b.lines()).find(|(x, y)| x != y).map(|(x, y)| json!({"first": x, "second": y}));
                run.violation("same_task_twice_in_one_process_differs".into(), json!({"kind": "assembling the same task twice in one process gives different problem texts", "task": t.describe(), "problem_index": idx, "first_differing_line": line}));
            }
        }
        run.set_extra("tasks_assembled_twice_in_process", json!(compared));
    }
    run.assume("generic formulas over predicates p/0, q/1, active set {1,2,a}; unsolved quantifiers over windows 5/8 (outer) and 11/14 (inner), verdicts must be window-stable");
    let sem0 = generic_sem();
    let _ = &sem0;
    let seed = run.seed as usize;
    let idx: Vec<usize> = (0..total).collect();
    idx.par_iter().for_each(|&i0| {
        let i = (i0 + seed) % total;
        let text = &all[i];
        let _w = run.watch("formula", "formula", text);
        let f: fol::Formula = match text.parse() {
            Ok(f) => f,
            Err(_) => {
                run.skipped.fetch_add(1, std::sync::atomic::Ordering::Relaxed);
                run.sample_force(json!({"unparsed": text}));
                return;
            }
        };
        let sem = generic_sem();
        let r = std::panic::catch_unwind(std::panic::AssertUnwindSafe(|| {
            one(mode, run, &sem, text, &f, i, total)
        }));
        if let Err(e) = r {
            let msg = e
                .downcast_ref::<String>()
                .cloned()
                .or_else(|| e.downcast_ref::<&str>().map(|s| s.to_string()))
                .unwrap_or_default();
            run.violation(
                format!("panic|{}", msg.chars().take(80).collect::<String>()),
                json!({"kind": "panic", "formula": text, "message": msg}),
            );
        }
    });
}

fn one(mode: Mode, run: &Run, sem: &Sem, text: &str, f: &fol::Formula, i: usize, total: usize) {
    let mut interps = 0u64;
    let mut cache: HashMap<String, bool> = HashMap::new();
    for pname in PORTFOLIOS {
        let fns = portfolio(pname);
        let classical = pname == "classic";
        if mode == Mode::C18 {
            run.state();
            match stepwise_fixpoint(f, &fns) {
                Fix::Done(g, passes) => {
                    let mut simp = fns.clone().into_iter().compose();
                    let real = f.clone().apply_fixpoint(&mut simp);
                    run.trans(passes as u64 + 2);
                    if real != g {
                        run.violation(
                            format!("fixpoint_mismatch|{pname}|{text}"),
                            json!({"kind": "apply_fixpoint differs from pass-by-pass iteration", "formula": text, "portfolio": pname,
                                   "stepwise": g.to_string(), "apply_fixpoint": real.to_string()}),
                        );
                    }
                    let again = real.clone().apply_fixpoint(&mut simp);
                    if again != real {
                        run.violation(
                            format!("not_idempotent|{pname}|{text}"),
                            json!({"kind": "fixpoint result changes when simplified again", "formula": text, "portfolio": pname,
                                   "first": real.to_string(), "second": again.to_string()}),
                        );
                    }
                    if passes > 0 {
                        run.observe(hash_of(&(passes, g.to_string())));
                    }
                    run.count(&format!("max_passes_seen_{pname}"), 0);
                    let mut c = run.counters.lock().unwrap();
                    let e = c.entry(format!("max_passes_seen_{pname}")).or_insert(0);
                    if (passes as u64) > *e {
                        *e = passes as u64;
                    }
                }
                Fix::Cycle(a, b) => {
                    run.violation(
                        format!("cycle|{pname}|{text}"),
                        json!({"kind": "fixpoint iteration cycles (non-termination)", "formula": text, "portfolio": pname,
                               "repeats_pass": a, "at_pass": b}),
                    );
                }
                Fix::Cap(why) => {
                    run.cap_hit.fetch_add(1, std::sync::atomic::Ordering::Relaxed);
                    run.sample_force(json!({"cap_hit": text, "portfolio": pname, "why": why}));
                }
            }
            continue;
        }
        for strategy in STRATEGIES {
            run.state();
            let g = match simplify(f, &fns, strategy) {
                Ok(g) => g,
                Err(_) => {
                    // non-termination is C18's business
                    run.count("fixpoint_not_reached", 1);
                    continue;
                }
            };
            if g == *f {
                run.count("unchanged", 1);
                continue;
            }
            let gs = g.to_string();
            let ck = format!("{classical}|{gs}");
            run.observe(hash_of(&gs));
            let newfree: Vec<String> = g
                .free_variables()
                .iter()
                .filter(|v| !f.free_variables().contains(*v))
                .map(|v| v.to_string())
                .collect();
            if !newfree.is_empty() {
                let loc = attribute(sem, f, pname, strategy, classical);
                let key = match &loc {
                    Some((n, b, _)) => format!("new_free_variable|{n}|{b}"),
                    None => format!("new_free_variable|unattributed|{text}"),
                };
                run.violation(
                    key,
                    json!({"kind": "output has a free variable the input did not have", "formula": text, "portfolio": pname,
                           "strategy": strategy, "output": gs, "new_free": newfree, "first_bad_step": loc}),
                );
                continue;
            }
            if let Some(ok) = cache.get(&ck) {
                if *ok {
                    continue;
                }
            }
            let d = differ(sem, f, &g, classical, &mut interps);
            cache.insert(ck, d.is_none());
            match d {
                None => {}
                Some((asg, desc, true)) => {
                    let loc = attribute(sem, f, pname, strategy, classical);
                    let key = match &loc {
                        Some((n, b, _)) => format!("{n}|{b}"),
                        None => format!("unattributed|{pname}|{strategy}|{text}"),
                    };
                    run.violation(
                        key,
                        json!({"kind": "not equivalent", "formula": text, "portfolio": pname, "strategy": strategy,
                               "output": gs, "assignment": asg, "detail": desc, "first_bad_step": loc,
                               "logic": if classical {"classical"} else {"here-and-there"}}),
                    );
                }
                Some((_, desc, false)) => {
                    run.window_unstable
                        .fetch_add(1, std::sync::atomic::Ordering::Relaxed);
                    run.sample_force(json!({"window_unstable": text, "portfolio": pname, "strategy": strategy, "output": gs, "detail": desc}));
                }
            }
        }
    }
    run.trans(interps);
    if i < 2 || i == total / 2 || i + 1 == total {
        run.sample(json!({"formula": text}));
    }
}

pub fn replay(mode: Mode, v: &Value) -> i32 {
    let text = v["replay"]["formula"].as_str().unwrap_or("");
    let f: fol::Formula = match text.parse() {
        Ok(f) => f,
        Err(e) => {
            println!("replay: formula does not parse: {e}");
            return 2;
        }
    };
    let sem = generic_sem();
    let mut bad = 0;
    for pname in PORTFOLIOS {
        let fns = portfolio(pname);
        if mode == Mode::C18 {
            match stepwise_fixpoint(&f, &fns) {
                Fix::Done(g, n) => println!("{pname}: fixpoint after {n} passes: {g}"),
                Fix::Cycle(a, b) => {
                    println!("{pname}: CYCLE pass {b} repeats pass {a}");
                    bad += 1
                }
                Fix::Cap(w) => println!("{pname}: cap: {w}"),
            }
            continue;
        }
        for strategy in STRATEGIES {
            if let Ok(g) = simplify(&f, &fns, strategy) {
                let mut n = 0;
                let d1 = differ(&sem, &f, &g, pname == "classic", &mut n);
                let d2 = differ(&sem, &f, &g, pname == "classic", &mut n);
                let s1 = format!("{:?}", d1.as_ref().map(|x| (&x.0, x.1.to_string(), x.2)));
                let s2 = format!("{:?}", d2.as_ref().map(|x| (&x.0, x.1.to_string(), x.2)));
                if s1 != s2 {
                    println!("replay: NON-DETERMINISTIC");
                    return 2;
                }
                println!("{pname}/{strategy}: {f}  =>  {g} : {}", if d1.is_some() { format!("DIFFERENT {s1}") } else { "equivalent".into() });
                if d1.is_some() {
                    bad += 1;
                }
            }
        }
    }
    if bad > 0 {
        1
    } else {
        0
    }
}
