//! Evaluation of emitted problems (anthem::verif::Problem) over all classical interpretations.
use crate::dom::*;
use crate::ground::{Key, G};
use crate::tt::*;
use anthem::verif::{Problem, Role};
use anthem::syntax_tree::fol::sigma_0::Formula;
use std::cell::RefCell;
use std::collections::HashMap;

pub struct Env<'a> {
    pub u: &'a Universe,
    pub sp: &'a Space,
    pub outer: Slice,
    pub inner: Slice,
    pub consts: HashMap<Key, Val>,
    pub cache: RefCell<HashMap<Formula, Table>>,
    /// problem constant -> input symbol it denotes (documented `s` -> `s__s` renaming)
    pub sym_override: HashMap<String, Val>,
}

impl<'a> Env<'a> {
    pub fn formula_table(&self, f: &Formula) -> Table {
        if let Some(t) = self.cache.borrow().get(f) {
            return t.clone();
        }
        let mut g = G::new(self.u, self.outer.clone(), self.inner.clone());
        g.consts = self.consts.clone();
        g.sym_override = self.sym_override.clone();
        let p = g.ground(f);
        let t = self.sp.cl(&p);
        self.cache.borrow_mut().insert(f.clone(), t.clone());
        t
    }
    pub fn formula_p(&self, f: &Formula) -> P {
        let mut g = G::new(self.u, self.outer.clone(), self.inner.clone());
        g.consts = self.consts.clone();
        g.sym_override = self.sym_override.clone();
        g.ground(f)
    }
    /// interpretations that make all axioms true and the (conjunction of) conjecture(s) false
    pub fn refuted(&self, p: &Problem) -> Table {
        let mut ax = self.sp.full.clone();
        let mut conj = self.sp.full.clone();
        for f in &p.formulas {
            let t = self.formula_table(&f.formula);
            match f.role {
                Role::Axiom => and_into(&mut ax, &t),
                Role::Conjecture => and_into(&mut conj, &t),
            }
        }
        let nc = self.sp.not(&conj);
        and_into(&mut ax, &nc);
        ax
    }
}

pub fn n_conjectures(p: &Problem) -> usize {
    p.formulas.iter().filter(|f| f.role == Role::Conjecture).count()
}

/// denotation of renamed symbols: `s__s` stands for the input symbol `s` when the problems
/// have a propositional predicate `s`
pub fn renamed_symbols(problems: &[Problem]) -> HashMap<String, Val> {
    let mut m = HashMap::new();
    for p in problems {
        let props: Vec<String> = p.predicates().into_iter().filter(|q| q.arity == 0).map(|q| q.symbol).collect();
        for s in p.symbols() {
            if let Some(base) = s.strip_suffix("__s") {
                if props.contains(&base.to_string()) {
                    m.insert(s.clone(), Val::Sym(base.to_string()));
                }
            }
        }
    }
    m
}
