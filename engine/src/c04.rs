//! C04: completion of a tight program's tau* theory has exactly the stable models (with
//! inputs); refusal of non-completable theories; supported-model check of accepted ones.
use crate::c01::{ht_space, program_syms, W0};
use crate::dom::*;
use crate::ground::G;
use crate::refsem;
use crate::report::*;
use crate::sem::*;
use crate::tt::*;
use anthem::analyzing::tightness::Tightness as _;
use anthem::syntax_tree::asp::mini_gringo as asp;
use anthem::syntax_tree::fol::sigma_0 as fol;
use anthem::translating::classical_reduction::completion::Completion as _;
use anthem::translating::formula_representation::tau_star::TauStar as _;
use indexmap::IndexSet;
use rayon::prelude::*;
use serde_json::{json, Value};

pub fn rule_alphabet() -> Vec<&'static str> {
    vec![
        // body variables named like the variables completion generates for the heads (V1, V2)
        "q(X) :- p(X, V1).",
        "p(X) :- in(X), in(V1), X != V1.",
        "p(V2, X) :- in(X), in(V2), in(V1), V1 < X.",
        // body variables named like the variables tau* generates for the arguments of body atoms (Z, Z1)
        "q(Z) :- p(Z, Z1).",
        "r :- p(Z1, Z), in(Z).",
        "p(X) :- in(X).",
        "p(X) :- q(X).",
        "p(X+1) :- q(X).",
        "p(1..2).",
        "p(a).",
        "{p(X)} :- q(X).",
        "{p(X)} :- in(X).",
        "p(X) :- q(X), not in(X).",
        "p(X) :- in(X), not not in(X+1).",
        "p(X) :- in(X), X > 1.",
        "p(X) :- X = 1..2, not q(X).",
        "p(X/2) :- q(X).",
        "p(X) :- in(X), not p(X+1).",
        "q(X) :- in(X).",
        "q(X) :- in(X), X != a.",
        "q(X*2) :- in(X).",
        "{q(X)} :- in(X).",
        "q(1).",
        "{q(1..2)}.",
        "q(X) :- in(X), not r.",
        "q(X) :- X = 0..1, r.",
        "r.",
        "{r}.",
        "r :- in(X).",
        "r :- not in(1).",
        "r :- q(X), not p(X).",
        "r :- not not r.",
        ":- p(X), not in(X).",
        ":- q(X), X > 1.",
        ":- r.",
        ":- not r.",
        ":- p(X), q(X).",
        "p(X) :- in(X), r.",
        "p(X) :- q(Y), X = Y + 1.",
        "p(-X) :- q(X).",
        "q(X) :- in(X), in(Y), X < Y.",
        "p(X,Y) :- in(X), in(Y).",
        "p(X,X) :- in(X).",
        "{p(X,1)} :- q(X).",
        "r :- p(X,Y), X != Y.",
        "q(X) :- p(X), in(X).",
        "r :- not not r, q(1).",
        "{r} :- p(X).",
    ]
}

pub fn programs(quick: bool) -> Vec<String> {
    let a = rule_alphabet();
    let mut out: Vec<String> = a.iter().map(|s| s.to_string()).collect();
    for i in 0..a.len() {
        for j in i..a.len() {
            if i != j {
                out.push(format!("{} {}", a[i], a[j]));
            }
        }
    }
    let n = a.len();
    for i in 0..n {
        for j in (i + 1)..n {
            for k in (j + 1)..n {
                if quick && (i * 7 + j * 3 + k) % 9 != 0 {
                    continue;
                }
                out.push(format!("{} {} {}", a[i], a[j], a[k]));
            }
        }
    }
    out
}

fn head_predicate(f: &fol::Formula) -> Option<fol::Predicate> {
    match f {
        fol::Formula::BinaryFormula {
            connective: fol::BinaryConnective::Equivalence,
            lhs,
            ..
        } => match &**lhs {
            fol::Formula::AtomicFormula(fol::AtomicFormula::Atom(a)) => Some(a.predicate()),
            _ => None,
        },
        fol::Formula::QuantifiedFormula {
            quantification,
            formula,
        } if matches!(quantification.quantifier, fol::Quantifier::Forall) => head_predicate(formula),
        _ => None,
    }
}

pub struct Res {
    pub diffs: Vec<Option<Value>>,
    pub structural: Vec<Value>,
    pub interps: u64,
    pub nontrivial: Vec<u64>,
    pub conform: u64,
    pub machinery: Vec<String>,
}

/// one tight program, one input set, windows ws
pub fn check_program(prog: &asp::Program, inputs: &[(String, usize)], ws: &[i128], limit: usize, conform: bool) -> Res {
    let preds: Vec<(String, usize)> = prog.predicates().into_iter().map(|p| (p.symbol, p.arity)).collect();
    let mut syms = program_syms(prog);
    let active = choose_active(&preds, limit, &syms, false);
    for v in &active {
        if let Val::Sym(x) = v {
            if !syms.contains(x) {
                syms.push(x.clone());
            }
        }
    }
    let u = Universe::new(&preds, &active);
    let hs = ht_space(u.len());
    let mut res = Res { diffs: vec![], structural: vec![], interps: 0, nontrivial: vec![], conform: 0, machinery: vec![] };
    let mut mask = 0u64;
    for (i, (p, a)) in u.atoms.iter().enumerate() {
        if inputs.contains(&(p.clone(), a.len())) {
            mask |= 1 << i;
        }
    }
    let inset: IndexSet<fol::Predicate> = inputs.iter().map(|(s, a)| fol::Predicate { symbol: s.clone(), arity: *a }).collect();
    let theory = prog.clone().tau_star();
    let theory_preds = theory.predicates();
    let comp = match theory.completion(inset.clone()) {
        Some(c) => c,
        None => {
            res.structural.push(json!({"kind": "completion refused for the tau* theory of a tight program"}));
            return res;
        }
    };
    // the completion of a closed theory is a set of sentences
    let open: Vec<String> = comp.formulas.iter().filter(|f| !f.free_variables().is_empty()).map(|f| f.to_string()).collect();
    if !open.is_empty() {
        res.structural.push(json!({"kind": "completed definition with free variables", "formulas": open}));
        return res;
    }
    // every non-input predicate owns exactly one completed definition
    for p in &theory_preds {
        let n = comp.formulas.iter().filter(|f| head_predicate(f).as_ref() == Some(p)).count();
        let want = if inset.contains(p) { 0 } else { 1 };
        if n != want {
            res.structural.push(json!({"kind": "number of completed definitions", "predicate": format!("{}/{}", p.symbol, p.arity), "found": n, "expected": want}));
        }
    }
    for &w in ws {
        let slice = slice_for(w, &syms);
        let mut cx = refsem::Ctx::new();
        let reference = refsem::program_sem(prog, &slice.general(), &u, &mut cx);
        let (sp, stable) = refsem::stable_table(&hs, &reference, mask);
        let inner = slice.widened(std::cmp::max(w, cx.maxabs + 2));
        let mut g = G::new(&u, slice.clone(), inner);
        g.audit = conform && w == ws[0];
        let pc = P::and(comp.formulas.iter().map(|f| g.ground(f)).collect());
        res.machinery.extend(g.audit_failures.clone());
        let tc = sp.cl(&pc);
        res.interps += sp.bits + hs.nvalid();
        if w == ws[0] {
            let c = sp.count(&stable);
            if c != 0 && c != sp.bits {
                res.nontrivial.push(hash_of(&stable));
            }
            if conform {
                match conform_cl(&sp, &pc).and_then(|a| conform_ht(&hs, &reference).map(|b| a + b)) {
                    Ok(n) => res.conform += n,
                    Err(e) => res.machinery.push(e),
                }
            }
        }
        let d = xor(&tc, &stable);
        res.diffs.push(sp.first_set(&d).map(|idx| {
            json!({"interpretation": describe_cl(&u, idx), "is_stable_model_with_inputs": sp.get(&stable, idx),
                   "satisfies_completion": sp.get(&tc, idx), "window": w,
                   "completion": comp.to_string()})
        }));
    }
    res
}

/// all subsets of predicates not occurring in heads
pub fn input_sets(prog: &asp::Program) -> Vec<Vec<(String, usize)>> {
    let heads: Vec<(String, usize)> = refsem::head_predicates(prog);
    let cand: Vec<(String, usize)> = prog
        .predicates()
        .into_iter()
        .map(|p| (p.symbol, p.arity))
        .filter(|p| !heads.contains(p))
        .collect();
    let mut out = vec![];
    for m in 0..(1u32 << cand.len()) {
        out.push(cand.iter().enumerate().filter(|(i, _)| (m >> i) & 1 == 1).map(|(_, p)| p.clone()).collect());
    }
    out
}

// ---------------------------------------------------------------- part 2: refusal / supported models

pub fn theory_formulas() -> Vec<&'static str> {
    vec![
        "forall X (q(X) -> p(X))",
        "forall X (p(X) <- q(X) and not s)",
        "forall X Y (q(X) and X = Y -> p(Y))",
        "forall Y (q(Y) -> p(Y))",
        "forall X$i (q(X$i) -> p(X$i))",
        "forall X (q(X) -> p(X, X))",
        "forall X Y (q(X) and q(Y) -> p(X, Y))",
        "forall X (q(X) -> p(a))",
        "q(1) -> p(1)",
        "forall X (q(X) -> p(X$i))",
        "q(X) -> p(X)",
        "forall X$i (q(X$i) -> p(X$i + 1))",
        "s -> q(1)",
        "s <- not q(1)",
        "not s -> s",
        "forall X (q(X) -> #false)",
        "forall X (q(X) and not p(X) -> #false)",
        "s -> #false",
        "#false <- q(Y)",
        "forall X (p(X) <-> q(X))",
        "forall X (p(X))",
        "forall X (q(X) or p(X))",
        "forall X (forall Y (q(Y) -> p(X)))",
        "forall X (exists Y (q(Y) and Y = X) -> p(X))",
        "forall X (q(X) -> not p(X))",
        "forall X (q(X) -> #true)",
        "forall X (p(X) -> q(X))",
        "exists X (q(X) -> p(X))",
        "forall V1 (s and V1 = 1 -> p(V1))",
        "forall X (q(X) -> p(X)) and s",
        // the same head variables in another argument order / another quantifier order
        "forall X Y (q(X) and q(Y) and X != Y -> p(Y, X))",
        "forall Y X (s and q(X) -> p(Y, X))",
        "forall Y X (q(Y) and not q(X) -> p(X, Y))",
        // a head variable repeated in NON-adjacent positions
        "forall X Y (q(X) and q(Y) -> p(X, Y, X))",
        "forall X Y (p(X, Y, X) <- q(X) and s)",
    ]
}

/// reference: is the theory "not completable" for one of the reasons the property lists?
pub fn reference_not_completable(t: &fol::Theory) -> Option<&'static str> {
    let mut heads: Vec<(fol::Predicate, fol::Atom)> = vec![];
    for f in &t.formulas {
        if !f.free_variables().is_empty() {
            return Some("free variables");
        }
        let inner = match f {
            fol::Formula::QuantifiedFormula { quantification, formula } if matches!(quantification.quantifier, fol::Quantifier::Forall) => &**formula,
            x => x,
        };
        let head = match inner {
            fol::Formula::BinaryFormula { connective: fol::BinaryConnective::Implication, rhs, .. } => &**rhs,
            fol::Formula::BinaryFormula { connective: fol::BinaryConnective::ReverseImplication, lhs, .. } => &**lhs,
            _ => continue,
        };
        if let fol::Formula::AtomicFormula(fol::AtomicFormula::Atom(a)) = head {
            let mut seen: Vec<fol::Variable> = vec![];
            for term in &a.terms {
                match fol::Variable::try_from(term.clone()) {
                    Ok(v) => {
                        if seen.contains(&v) {
                            return Some("repeated head variable");
                        }
                        seen.push(v);
                    }
                    Err(_) => return Some("non-variable head argument"),
                }
            }
            heads.push((a.predicate(), a.clone()));
        }
    }
    for (p, a) in &heads {
        for (p2, a2) in &heads {
            if p == p2 && a != a2 {
                return Some("mismatched heads");
            }
        }
    }
    None
}

/// supported-model semantics of an accepted theory: interpretation satisfies every formula
/// and every true non-input atom p(v) is supported by the body of some partial definition.
fn supported_table(t: &fol::Theory, inputs: &[(String, usize)], u: &Universe, sp: &Space, w: i128) -> Option<Table> {
    let syms = vec!["a".to_string()];
    let slice = slice_for(w, &syms);
    let inner = slice.widened(w + 6);
    let mut tab = sp.full.clone();
    // the theory itself
    {
        let mut g = G::new(u, slice.clone(), inner.clone());
        for f in &t.formulas {
            let p = g.ground(f);
            and_into(&mut tab, &sp.cl(&p));
        }
    }
    // support
    for (ai, (pn, args)) in u.atoms.iter().enumerate() {
        if inputs.contains(&(pn.clone(), args.len())) {
            continue;
        }
        let mut supp = sp.zero();
        for f in &t.formulas {
            let (vars, inner_f) = match f {
                fol::Formula::QuantifiedFormula { quantification, formula } if matches!(quantification.quantifier, fol::Quantifier::Forall) => (quantification.variables.clone(), &**formula),
                x => (vec![], x),
            };
            let (body, head) = match inner_f {
                fol::Formula::BinaryFormula { connective: fol::BinaryConnective::Implication, lhs, rhs } => (&**lhs, &**rhs),
                fol::Formula::BinaryFormula { connective: fol::BinaryConnective::ReverseImplication, lhs, rhs } => (&**rhs, &**lhs),
                _ => return None,
            };
            let fol::Formula::AtomicFormula(fol::AtomicFormula::Atom(a)) = head else { continue };
            if a.predicate_symbol != *pn || a.terms.len() != args.len() {
                continue;
            }
            // bind head variables to the atom's arguments; the other universally quantified
            // variables become existential in the support condition
            let mut g = G::new(u, slice.clone(), inner.clone());
            let mut ok = true;
            let mut hv = vec![];
            for (term, val) in a.terms.iter().zip(args.iter()) {
                match fol::Variable::try_from(term.clone()) {
                    Ok(v) => {
                        if !crate::ground::sort_ok(v.sort, val) {
                            ok = false;
                        }
                        g.bind(&v.name, v.sort, val.clone());
                        hv.push(v);
                    }
                    Err(_) => return None,
                }
            }
            if !ok {
                continue;
            }
            let rest: Vec<fol::Variable> = vars.into_iter().filter(|v| !hv.contains(v)).collect();
            let cond = body.clone().quantify(fol::Quantifier::Exists, rest);
            let p = g.ground(&cond);
            or_into(&mut supp, &sp.cl(&p));
        }
        // atom -> supported
        let mut imp = sp.not(sp.var(ai));
        or_into(&mut imp, &supp);
        and_into(&mut tab, &imp);
    }
    Some(tab)
}

pub fn run(run: &Run) {
    let quick = run.quick();
    let all = programs(quick);
    let total = all.len();
    run.set_extra("programs_generated", json!(total));
    run.set_extra("windows", json!([W0, W0 + 3]));
    run.set_rule("part 1: every program of 1-3 rules over a 43-rule alphabet (heads basic/choice/constraint over p/1,p/2,q/1,r/0, bodies with in/1, negation, double negation, comparisons, intervals, arithmetic) that the real is_tight() accepts x every subset of non-head predicates as inputs x all classical interpretations: completion(tau*(P), inputs) vs stable models with inputs from the reference semantics (HT truth table, minimality by enumeration). part 2: every theory of 1-2 formulas over 35 implication shapes (incl. heads that permute the same variables and heads repeating a variable in non-adjacent positions): listed non-completability reasons => completion refuses; accepted theories vs supported-model semantics. non-trivial = distinct stable-model table neither empty nor full");
    run.assume("finite slice as in C01; stable models are computed among interpretations over U with inputs fixed to the interpretation's own input facts");
    let limit = if quick { 8 } else { 9 };
    let idx: Vec<usize> = (0..total).collect();
    let seed = run.seed as usize;
    idx.par_iter().for_each(|&i0| {
        let i = (i0 + seed) % total;
        let text = &all[i];
        let _w = run.watch("program", "program", text);
        let Ok(prog) = text.parse::<asp::Program>() else {
            run.skipped.fetch_add(1, std::sync::atomic::Ordering::Relaxed);
            return;
        };
        if !prog.is_tight() {
            run.count("programs_not_tight", 1);
            return;
        }
        run.count("programs_tight", 1);
        for inputs in input_sets(&prog) {
            let conform = i % 40 == 0;
            let r = std::panic::catch_unwind(std::panic::AssertUnwindSafe(|| check_program(&prog, &inputs, &[W0, W0 + 3], limit, conform)));
            let itxt: Vec<String> = inputs.iter().map(|(s, a)| format!("{s}/{a}")).collect();
            run.state();
            let r = match r {
                Ok(r) => r,
                Err(_) => {
                    run.violation(format!("panic|{text}|{itxt:?}"), json!({"kind": "panic", "program": text, "inputs": itxt}));
                    continue;
                }
            };
            run.trans(r.interps);
            run.valid(r.conform);
            for m in r.machinery {
                run.machinery(format!("{m} (program {text})"));
            }
            for h in r.nontrivial {
                run.observe(h);
            }
            for s in r.structural {
                run.violation(format!("structural|{}|{text}|{itxt:?}", s["kind"].as_str().unwrap_or("")), json!({"kind": "structural", "program": text, "inputs": itxt, "detail": s}));
            }
            if r.diffs.len() == 2 {
                match (&r.diffs[0], &r.diffs[1]) {
                    (Some(d), Some(_)) => run.violation(format!("completion_vs_stable|{text}|{itxt:?}"), json!({"kind": "completion_vs_stable", "program": text, "inputs": itxt, "detail": d})),
                    (None, None) => {}
                    (a, b) => {
                        run.window_unstable.fetch_add(1, std::sync::atomic::Ordering::Relaxed);
                        run.sample_force(json!({"window_unstable": text, "inputs": itxt, "detail": a.clone().or(b.clone())}));
                    }
                }
            }
            if i < 2 || i + 1 == total {
                run.sample(json!({"program": text, "inputs": itxt}));
            }
        }
    });
    // part 2
    let tf = theory_formulas();
    let mut theories: Vec<String> = tf.iter().map(|f| format!("{f}.")).collect();
    for a in &tf {
        for b in &tf {
            theories.push(format!("{a}. {b}."));
        }
    }
    run.set_extra("theories_generated", json!(theories.len()));
    let active = vec![Val::Int(1), Val::Int(2), Val::sym("a")];
    theories.par_iter().for_each(|text| {
        let _w = run.watch("theory", "theory", text);
        let Ok(t) = text.parse::<fol::Theory>() else {
            run.skipped.fetch_add(1, std::sync::atomic::Ordering::Relaxed);
            return;
        };
        let reason = reference_not_completable(&t);
        for inputs in [vec![], vec![("q".to_string(), 1usize)]] {
            run.state();
            let inset: IndexSet<fol::Predicate> = inputs.iter().map(|(s, a)| fol::Predicate { symbol: s.clone(), arity: *a }).collect();
            let c = std::panic::catch_unwind(std::panic::AssertUnwindSafe(|| t.clone().completion(inset)));
            let c = match c {
                Ok(c) => c,
                Err(_) => {
                    run.violation(format!("panic_theory|{text}"), json!({"kind": "panic", "theory": text}));
                    continue;
                }
            };
            match (&c, reason) {
                (Some(res), Some(why)) => {
                    run.violation(format!("not_refused|{why}|{text}"), json!({"kind": "non-completable theory was completed", "theory": text, "reason": why, "result": res.to_string()}));
                }
                (None, _) => run.count("theories_refused", 1),
                (Some(res), None) => {
                    run.count("theories_completed", 1);
                    // a head over an integer/symbol-sorted variable defines the predicate on that
                    // sort only; the property does not say what completion should mean there, so
                    // such theories are outside the semantic oracle (counted, not judged)
                    let sorted_head = res.formulas.iter().any(|f| {
                        fn hv(f: &fol::Formula) -> bool {
                            match f {
                                fol::Formula::QuantifiedFormula { formula, .. } => hv(formula),
                                fol::Formula::BinaryFormula { connective: fol::BinaryConnective::Equivalence, lhs, .. } => match &**lhs {
                                    fol::Formula::AtomicFormula(fol::AtomicFormula::Atom(a)) => a.terms.iter().any(|t| !matches!(t, fol::GeneralTerm::Variable(_))),
                                    _ => false,
                                },
                                _ => false,
                            }
                        }
                        hv(f)
                    });
                    if sorted_head {
                        run.count("theories_with_sorted_head_not_judged", 1);
                        continue;
                    }
                    // semantic check against supported models
                    let preds: Vec<(String, usize)> = t.predicates().into_iter().map(|p| (p.symbol, p.arity)).collect();
                    let u = Universe::new(&preds, &active);
                    if u.len() > 16 {
                        return;
                    }
                    let sp = Space::new(u.len());
                    let mut verdicts = vec![];
                    for w in [5i128, 8] {
                        let Some(sup) = supported_table(&t, &inputs, &u, &sp, w) else { return };
                        let syms = vec!["a".to_string()];
                        let slice = slice_for(w, &syms);
                        let mut g = G::new(&u, slice.clone(), slice.widened(w + 6));
                        let pc = P::and(res.formulas.iter().map(|f| g.ground(f)).collect());
                        let tc = sp.cl(&pc);
                        run.trans(sp.bits);
                        let c = sp.count(&sup);
                        if c != 0 && c != sp.bits {
                            run.observe(hash_of(&sup));
                        }
                        let d = xor(&tc, &sup);
                        verdicts.push(sp.first_set(&d).map(|idx| json!({"interpretation": describe_cl(&u, idx), "supported_model": sp.get(&sup, idx), "satisfies_completion": sp.get(&tc, idx), "completion": res.to_string()})));
                    }
                    match (&verdicts[0], &verdicts[1]) {
                        (Some(d), Some(_)) => run.violation(format!("completion_vs_supported|{text}|{inputs:?}"), json!({"kind": "completion_vs_supported_models", "theory": text, "inputs": format!("{inputs:?}"), "detail": d})),
                        (None, None) => {}
                        _ => {
                            run.window_unstable.fetch_add(1, std::sync::atomic::Ordering::Relaxed);
                        }
                    }
                }
            }
        }
    });
}

pub fn replay(v: &Value) -> i32 {
    let r = &v["replay"];
    if let Some(text) = r["program"].as_str() {
        let prog: asp::Program = text.parse().unwrap();
        let inputs: Vec<(String, usize)> = r["inputs"]
            .as_array()
            .map(|a| a.iter().filter_map(|x| x.as_str()).filter_map(|s| s.split_once('/')).map(|(n, k)| (n.to_string(), k.parse().unwrap())).collect())
            .unwrap_or_default();
        let a = check_program(&prog, &inputs, &[W0, W0 + 3], 9, false);
        let b = check_program(&prog, &inputs, &[W0, W0 + 3], 9, false);
        let sa = format!("{:?} {:?}", a.diffs, a.structural);
        if sa != format!("{:?} {:?}", b.diffs, b.structural) {
            println!("replay: NON-DETERMINISTIC");
            return 2;
        }
        println!("replay `{text}` inputs {inputs:?}: {sa}");
        return if a.diffs.iter().any(|d| d.is_some()) || !a.structural.is_empty() { 1 } else { 0 };
    }
    println!("replay: theory cases are re-run by the full check");
    2
}
