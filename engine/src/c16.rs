//! C16 (in-process part): any input text leads to a result or a reported error, never a
//! panic; accepted inputs are processed by every later stage without a panic.
use crate::report::*;
use crate::tasks::*;
use anthem::analyzing::{regularity::Regularity as _, tightness::Tightness as _};
use anthem::convenience::{apply::Apply as _, compose::Compose as _};
use anthem::syntax_tree::asp::mini_gringo as asp;
use anthem::syntax_tree::fol::sigma_0 as fol;
use anthem::translating::classical_reduction::{completion::Completion as _, gamma::Gamma as _};
use anthem::translating::formula_representation::{mu::Mu as _, natural::Natural as _, tau_star::TauStar as _};
use anthem::verif::{AnnotatedFormula, Decomposition, FormulaRepresentation, Problem, Role};
use rayon::prelude::*;
use serde_json::json;
use std::time::Instant;

#[derive(Clone, Copy, PartialEq, Debug)]
pub enum Kind {
    Program,
    Theory,
    Specification,
    UserGuide,
    Outline,
}

fn flags() -> Flags {
    Flags { dec: Decomposition::Sequential, simplify: true, eqb: true }
}

fn stages_theory(th: &fol::Theory) {
    let _ = th.to_string();
    let g = th.clone().gamma();
    let _ = g.to_string();
    let _ = th.clone().completion(Default::default());
    for f in &th.formulas {
        for pname in crate::c07::PORTFOLIOS {
            let fns = crate::c07::portfolio(pname);
            let mut simp = fns.clone().into_iter().compose();
            let _ = simp(f.clone());
            let _ = f.clone().apply(&mut simp);
            let _ = crate::c07::stepwise_fixpoint(f, &fns);
        }
        let p = Problem::with_name("t").add_annotated_formulas(vec![AnnotatedFormula { name: "f".into(), role: Role::Conjecture, formula: f.clone() }]);
        let _ = p.to_string();
    }
}

fn stages(kind: Kind, text: &str) -> bool {
    match kind {
        Kind::Program => {
            let Ok(p) = text.parse::<asp::Program>() else { return false };
            let _ = p.to_string();
            let _ = p.is_tight();
            let _ = p.is_regular();
            let t = p.clone().tau_star();
            stages_theory(&t);
            if let Some(n) = p.clone().natural() {
                let _ = n.to_string();
            }
            let m = p.clone().mu();
            let _ = m.to_string();
            for rep in [FormulaRepresentation::TauStar, FormulaRepresentation::Mu] {
                if let Ok(ps) = build_strong(text, "p(X) :- q(X).", &flags(), rep, fol::Direction::Universal) {
                    for x in ps {
                        let _ = x.to_string();
                    }
                }
            }
            let t = ExtTask { left: text.into(), left_is_spec: false, right: "out(X) :- in(X).".into(), ug: "input: in/1. output: out/1. input: n -> integer.".into(), po: String::new() };
            for bypass in [false, true] {
                if let Ok(ps) = build_external(&t, &flags(), fol::Direction::Universal, bypass) {
                    for x in ps {
                        let _ = x.to_string();
                    }
                }
            }
            true
        }
        Kind::Theory => {
            let Ok(t) = text.parse::<fol::Theory>() else { return false };
            stages_theory(&t);
            true
        }
        Kind::Specification | Kind::Outline => {
            let Ok(s) = text.parse::<fol::Specification>() else { return false };
            let _ = s.to_string();
            let t = if kind == Kind::Specification {
                ExtTask { left: text.into(), left_is_spec: true, right: "out(X) :- in(X).".into(), ug: "input: in/1. output: out/1. input: n -> integer.".into(), po: String::new() }
            } else {
                ExtTask { left: "out(X) :- in(X).".into(), left_is_spec: false, right: "out(X) :- in(X), not not in(X).".into(), ug: "input: in/1. output: out/1. input: n -> integer.".into(), po: text.into() }
            };
            for f in all_flags() {
                if let Ok(ps) = build_external(&t, &f, fol::Direction::Universal, false) {
                    for x in ps {
                        let _ = x.to_string();
                    }
                }
            }
            true
        }
        Kind::UserGuide => {
            let Ok(u) = text.parse::<fol::UserGuide>() else { return false };
            let _ = u.to_string();
            let t = ExtTask { left: "out(X) :- in(X).".into(), left_is_spec: false, right: "out(X) :- in(X), not not in(X).".into(), ug: text.into(), po: String::new() };
            if let Ok(ps) = build_external(&t, &flags(), fol::Direction::Universal, false) {
                for x in ps {
                    let _ = x.to_string();
                }
            }
            true
        }
    }
}

fn tokenize(text: &str) -> Vec<String> {
    let cs: Vec<char> = text.chars().collect();
    let mut out = vec![];
    let mut i = 0;
    while i < cs.len() {
        let c = cs[i];
        if c.is_whitespace() {
            let s = i;
            while i < cs.len() && cs[i].is_whitespace() {
                i += 1;
            }
            out.push(cs[s..i].iter().collect());
        } else if c.is_alphanumeric() || c == '_' || c == '#' || c == '$' {
            let s = i;
            i += 1;
            while i < cs.len() && (cs[i].is_alphanumeric() || cs[i] == '_' || cs[i] == '$') {
                i += 1;
            }
            out.push(cs[s..i].iter().collect());
        } else {
            let two: String = cs[i..std::cmp::min(i + 2, cs.len())].iter().collect();
            let three: String = cs[i..std::cmp::min(i + 3, cs.len())].iter().collect();
            if three == "<->" {
                out.push(three);
                i += 3;
            } else if [":-", "..", "!=", "<=", ">=", "->", "<-"].contains(&two.as_str()) {
                out.push(two);
                i += 2;
            } else {
                out.push(c.to_string());
                i += 1;
            }
        }
    }
    out
}

const BIG: [&str; 6] = ["9223372036854775807", "9223372036854775808", "-9223372036854775808", "-9223372036854775809", "123456789012345678901234567890", "18446744073709551616"];
/// identifiers carrying a digit string beyond every machine integer (numeral inflation inside names)
const BIG_IDS: [&str; 8] = ["V99999999999999999999999", "X18446744073709551616", "N99999999999999999999999", "Z123456789012345678901234567890", "I99999999999999999999999", "p99999999999999999999999", "a99999999999999999999999", "V1_99999999999999999999999"];

fn alphabet(kind: Kind) -> Vec<&'static str> {
    let mut v: Vec<&'static str> = match kind {
        Kind::Program => vec!["p", "q(X)", "X", "1", "-", "+", "*", "/", "\\", "..", "(", ")", ":-", ",", ";", ".", "not", "{", "}", "#false", "=", "<", "a", "#inf", "%", " "],
        _ => vec!["forall", "exists", "X", "X$i", "Y$", "p", "q(X)", "not", "and", "or", "->", "<-", "<->", "=", "<", "1", "-", "+", "(", ")", "#true", "a", "a$i", ".", ":", "spec", "assumption", "lemma", "definition", "inductive-lemma", "input", "output", "/", "[", "]", "(forward)", "n", "integer", "%", " "],
    };
    v.extend(BIG);
    v
}

fn check(run: &Run, kind: Kind, text: &str, origin: &str) {
    let t0 = Instant::now();
    clear_panic();
    let kind_name: &'static str = match kind {
        Kind::Program => "Program",
        Kind::Theory => "Theory",
        Kind::Specification => "Specification",
        Kind::UserGuide => "UserGuide",
        Kind::Outline => "Outline",
    };
    let _w = run.watch_with("input", "input", text, "input_kind", kind_name);
    let r = std::panic::catch_unwind(std::panic::AssertUnwindSafe(|| stages(kind, text)));
    let dt = t0.elapsed().as_secs_f64();
    run.state();
    run.trans(1);
    match r {
        Ok(acc) => {
            run.count(if acc { "accepted" } else { "rejected_with_error" }, 1);
            if acc {
                run.observe(hash_of(&text) % 2048);
            }
        }
        Err(_) => {
            let (loc, msg) = last_panic();
            let mut file = loc.split(':').next().unwrap_or("").to_string();
            if let Some(k) = file.find("/library/") {
                file = format!("std{}", &file[k..]);
            } else if let Some(k) = file.rfind("/src/") {
                // relative to the crate root: the key must not depend on where the checkout lives
                file = file[k + 1..].to_string();
            }
            let kindmsg: String = msg.chars().filter(|c| !c.is_ascii_digit()).take(90).collect();
            run.violation(
                format!("panic|{file}|{kindmsg}"),
                json!({"kind": "panic", "input_kind": format!("{kind:?}"), "input": text, "origin": origin, "location": loc, "message": msg}),
            );
        }
    }
    if dt > 5.0 {
        run.violation(format!("slow|{kind:?}"), json!({"kind": "a single input took more than 5 s", "input_kind": format!("{kind:?}"), "input": text, "seconds": dt}));
    }
}

fn kind_of(path: &str) -> Option<Kind> {
    if path.ends_with(".lp") {
        Some(Kind::Program)
    } else if path.ends_with(".spec") {
        Some(Kind::Specification)
    } else if path.ends_with(".ug") {
        Some(Kind::UserGuide)
    } else if path.ends_with(".po") {
        Some(Kind::Outline)
    } else {
        None
    }
}

fn walk(dir: &std::path::Path, out: &mut Vec<String>) {
    if let Ok(rd) = std::fs::read_dir(dir) {
        let mut es: Vec<_> = rd.flatten().collect();
        es.sort_by_key(|e| e.path());
        for e in es {
            let p = e.path();
            if p.is_dir() {
                walk(&p, out);
            } else if let Some(s) = p.to_str() {
                if kind_of(s).is_some() {
                    out.push(s.to_string());
                }
            }
        }
    }
}

pub fn run(run: &Run) {
    let quick = run.quick();
    run.set_rule("(i) every string of <= 3 (thorough 4) tokens over each grammar's token alphabet (26 / 40 tokens + 6 boundary numerals) for the program, theory, specification, user-guide and proof-outline parsers; (ii) for every .lp/.spec/.ug/.po file under res/examples and tests/ui: every single-token edit (delete, duplicate, swap with neighbour, inflate an identifier/numeral with 23 digits, replace by each alphabet token) at every position and every pair of deletions within a window of 4 tokens (quick: a stride of the files); (iii) every formula of C07's families as a theory / specification entry / lemma and every program of C01's alphabets (quick: strides); every accepted text is pushed through all later stages (tau*, natural, mu, gamma, completion, portfolios x strategies, default and TPTP formatting, tightness, regularity, strong and external task assembly with fixed partners); oracle: no panic (catch_unwind + panic hook), no input slower than 5 s; non-trivial = accepted texts (hashed to 2048 buckets)");
    run.assume("the property's quantifier (all byte strings up to a few KB) is not enumerable; the claim is limited to the stated edit/length bounds");
    run.assume("a genuine hang would stall the run and is caught by the driver's wall-clock limit, not classified in-process");
    // (i) token strings
    for kind in [Kind::Program, Kind::Theory, Kind::Specification, Kind::UserGuide, Kind::Outline] {
        let a = alphabet(kind);
        let maxlen = if quick { 2 } else { 3 };
        let mut strs: Vec<String> = vec![String::new(), " ".into(), "%".into(), "% only a comment".into(), "\n\n".into(), "\u{feff}p.".into(), "p.\0".into(), "é.".into()];
        let mut cur: Vec<Vec<usize>> = vec![vec![]];
        for _ in 0..maxlen {
            let mut next = vec![];
            for c in &cur {
                for i in 0..a.len() {
                    let mut x = c.clone();
                    x.push(i);
                    next.push(x);
                }
            }
            for n in &next {
                strs.push(n.iter().map(|i| a[*i]).collect::<Vec<_>>().join(" "));
            }
            cur = next;
        }
        // numerals in every syntactic position of a valid text
        let frames: Vec<&str> = match kind {
            Kind::Program => vec!["p({}).", "p(X) :- q(X), X < {}.", "p({}..{}).", "p(X/{}) :- q(X).", "p(1 + {}).", "p(-{})."],
            Kind::Theory => vec!["p({}).", "forall X$i (X$i > {} -> p(X$i)).", "p({} + {}).", "p(-{})."],
            Kind::Specification => vec!["spec: p({}).", "assumption: forall X (q(X) -> X < {})."],
            Kind::UserGuide => vec!["input: p/{}.", "output: q/{}.", "assumption: p({})."],
            Kind::Outline => vec!["lemma: p({}).", "inductive-lemma: forall N$i (N$i >= {} -> in(N$i)).", "definition: forall X (d(X) <-> X > {})."],
        };
        for f in frames {
            for b in BIG {
                strs.push(f.replace("{}", b));
            }
        }
        // inflated identifiers in every identifier position of a valid text
        let id_frames: Vec<&str> = match kind {
            Kind::Program => vec!["p({V}) :- q({V}).", "p(X) :- q(X, {V}).", "{P}({V}).", "p({S}).", "{p({V}+1)} :- q({V}).", "p(1..{V}) :- q({V})."],
            Kind::Theory => vec!["forall {V} ({P}({V})).", "exists {V}$i ({V}$i = 1).", "p({S}).", "forall {V} (p({V}) -> exists {V}1 (q({V}1)))."],
            Kind::Specification => vec!["spec: forall {V} ({P}({V}) -> q({V})).", "assumption[{S}]: p({S})."],
            Kind::UserGuide => vec!["input: {P}/1.", "input: {S} -> integer.", "assumption: forall {V} ({P}({V}))."],
            Kind::Outline => vec!["lemma[{S}]: forall {V} (in({V}) -> in({V})).", "definition: forall {V} (d({V}) <-> in({V})).", "inductive-lemma: forall {V}$i ({V}$i >= 0 -> in({V}$i))."],
        };
        for f in id_frames {
            for b in BIG_IDS {
                let up = b.chars().next().unwrap().is_ascii_uppercase();
                if f.contains("{V}") && up {
                    strs.push(f.replace("{V}", b).replace("{P}", "p").replace("{S}", "a"));
                }
                if !up {
                    strs.push(f.replace("{P}", b).replace("{S}", b).replace("{V}", "X"));
                }
            }
        }
        // identifiers that collide with the names anthem itself generates when it renames symbols and
        // predicates (s -> s__s, p -> p_p, h-/t-copies), all present at once
        let clash: Vec<&str> = match kind {
            Kind::Program => vec![
                "p :- not not not q.", "p :- not not not not q.", ":- not not not p(X), q(X).", "{p} :- q, not not not r(1).",
                "a. a__s. p(a).", "a. a__s. p(ha).", "a. a__s. a__s__s. p(a). p(a__s).", "ha. ha__s. ta. p(ha). p(ta).",
                "aux(X) :- q(X). aux_p(X) :- aux(X). aux_p_p(X) :- aux_p(X). out(X) :- aux_p_p(X).", "p(V1) :- q(V1), q(V2), q(V3), V1 != V2.",
            ],
            Kind::Theory => vec!["a and a__s and p(a).", "forall X (p(X) -> X = a) and a and a__s.", "ha and ta and p(ha) and p(ta)."],
            Kind::Specification => vec!["spec: a and a__s and p(a).", "assumption: a__s -> p(a). spec: a."],
            Kind::UserGuide => vec!["input: a/0. input: a__s/0. output: p/1.", "input: a -> symbol. input: a__s/0."],
            Kind::Outline => vec!["lemma: a and a__s and p(a).", "definition: forall X (a__s(X) <-> p(a))."],
        };
        for c in clash {
            strs.push(c.to_string());
        }
        run.count(&format!("token_strings_{kind:?}"), strs.len() as u64);
        strs.par_iter().for_each(|s| check(run, kind, s, "token string"));
    }
    // (ii) mutants of accepted files
    let mut files = vec![];
    walk(std::path::Path::new("/repo/res/examples"), &mut files);
    walk(std::path::Path::new("/repo/tests/ui"), &mut files);
    run.set_extra("files_found", json!(files.len()));
    // quick: every proof outline, and a stride of the other files
    let files: Vec<String> = files.into_iter().enumerate().filter(|(i, f)| !quick || f.ends_with(".po") || i % 5 == 0).map(|(_, f)| f).collect();
    run.set_extra("files_mutated", json!(files.len()));
    for path in &files {
        let kind = kind_of(path).unwrap();
        let Ok(text) = std::fs::read_to_string(path) else { continue };
        let toks = tokenize(&text);
        let a = alphabet(kind);
        let mut muts: Vec<String> = vec![text.clone()];
        for i in 0..toks.len() {
            if toks[i].trim().is_empty() {
                continue;
            }
            let join = |v: &Vec<String>| v.concat();
            let mut d = toks.clone();
            d.remove(i);
            muts.push(join(&d));
            let mut du = toks.clone();
            du.insert(i, toks[i].clone());
            muts.push(join(&du));
            if i + 1 < toks.len() {
                let mut sw = toks.clone();
                sw.swap(i, i + 1);
                muts.push(join(&sw));
            }
            if toks[i].chars().all(|c| c.is_ascii_alphanumeric() || c == '_') {
                let mut inf = toks.clone();
                inf[i] = format!("{}99999999999999999999999", toks[i]);
                muts.push(join(&inf));
            }
            for r in &a {
                if quick && (i + r.len()) % 4 != 0 {
                    continue;
                }
                let mut rp = toks.clone();
                rp[i] = r.to_string();
                muts.push(join(&rp));
            }
            for j in (i + 1)..std::cmp::min(i + 4, toks.len()) {
                if toks[j].trim().is_empty() {
                    continue;
                }
                let mut dd = toks.clone();
                dd.remove(j);
                dd.remove(i);
                muts.push(join(&dd));
            }
        }
        run.count("file_mutants", muts.len() as u64);
        let origin = path.clone();
        muts.par_iter().for_each(|m| check(run, kind, m, &origin));
    }
    // (iii) the alphabets of the semantic explorers as accepted inputs of every later stage: every
    // formula of C07's families as a theory and as a specification entry, every program of C01's
    // alphabets (quick: strides)
    let forms = crate::c07::inputs(quick);
    run.count("family_formulas_as_theories", forms.len() as u64);
    forms.par_iter().enumerate().for_each(|(i, f)| {
        if quick && i % 3 != 0 {
            return;
        }
        check(run, Kind::Theory, &format!("{f}."), "formula family");
        if i % 7 == 0 {
            check(run, Kind::Specification, &format!("spec: {f}."), "formula family");
            check(run, Kind::Outline, &format!("lemma: {f}."), "formula family");
        }
    });
    let progs = crate::c01::inputs(true);
    run.count("alphabet_programs", progs.len() as u64);
    progs.par_iter().enumerate().for_each(|(i, p)| {
        if quick && i % 4 != 0 {
            return;
        }
        check(run, Kind::Program, p, "program alphabet");
    });
    run.sample(json!({"example_token_string": "p ( X ) :- 9223372036854775808", "example_mutant_of": files.first()}));
}

pub fn replay(v: &serde_json::Value) -> i32 {
    let r = &v["replay"];
    let kind = match r["input_kind"].as_str().unwrap_or("Program") {
        "Theory" => Kind::Theory,
        "Specification" => Kind::Specification,
        "UserGuide" => Kind::UserGuide,
        "Outline" => Kind::Outline,
        _ => Kind::Program,
    };
    let text = r["input"].as_str().unwrap_or("");
    let run = Run::new("C16", "quick");
    check(&run, kind, text, "replay");
    check(&run, kind, text, "replay");
    let vs = run.violations.lock().unwrap();
    println!("replay {kind:?} input of {} bytes: {:?}", text.len(), vs.iter().map(|x| x.key.clone()).collect::<Vec<_>>());
    if vs.is_empty() { 0 } else { 1 }
}
