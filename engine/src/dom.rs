//! Standard-domain slice, values, propositional (HT / classical) formulas over ground atoms.
use std::collections::HashMap;
use std::rc::Rc;

#[derive(Clone, Debug, PartialEq, Eq, Hash, PartialOrd, Ord)]
pub enum Val {
    Inf,
    Int(i128),
    Sym(String),
    Sup,
}

impl std::fmt::Display for Val {
    fn fmt(&self, f: &mut std::fmt::Formatter<'_>) -> std::fmt::Result {
        match self {
            Val::Inf => write!(f, "#inf"),
            Val::Sup => write!(f, "#sup"),
            Val::Int(i) => write!(f, "{i}"),
            Val::Sym(s) => write!(f, "{s}"),
        }
    }
}

impl Val {
    pub fn sym(s: &str) -> Val {
        Val::Sym(s.to_string())
    }
    pub fn is_int(&self) -> bool {
        matches!(self, Val::Int(_))
    }
    pub fn is_sym(&self) -> bool {
        matches!(self, Val::Sym(_))
    }
}

/// A finite slice D(w, S) of the standard domain.
#[derive(Clone, Debug)]
pub struct Slice {
    pub w: i128,
    pub syms: Vec<String>,
}

impl Slice {
    pub fn new(w: i128, syms: &[&str]) -> Slice {
        let mut s: Vec<String> = syms.iter().map(|x| x.to_string()).collect();
        s.sort();
        s.dedup();
        Slice { w, syms: s }
    }
    pub fn ints(&self) -> Vec<Val> {
        (-self.w..=self.w).map(Val::Int).collect()
    }
    pub fn symbols(&self) -> Vec<Val> {
        self.syms.iter().cloned().map(Val::Sym).collect()
    }
    pub fn general(&self) -> Vec<Val> {
        let mut v = vec![Val::Inf];
        v.extend(self.ints());
        v.extend(self.symbols());
        v.push(Val::Sup);
        v
    }
    pub fn widened(&self, w: i128) -> Slice {
        Slice {
            w,
            syms: self.syms.clone(),
        }
    }
}

/// Propositional formula over atom indices. HT connectives kept (`Imp`, `Not`).
#[derive(Clone, Debug, PartialEq, Eq, Hash)]
pub enum P {
    T,
    F,
    Atom(usize),
    Not(Rc<P>),
    And(Vec<P>),
    Or(Vec<P>),
    Imp(Rc<P>, Rc<P>),
}

impl P {
    pub fn not(p: P) -> P {
        match p {
            P::T => P::F,
            P::F => P::T,
            x => P::Not(Rc::new(x)),
        }
    }
    pub fn and(ps: Vec<P>) -> P {
        let mut out: Vec<P> = vec![];
        for p in ps {
            match p {
                P::T => {}
                P::F => return P::F,
                P::And(v) => {
                    for x in v {
                        if !out.contains(&x) {
                            out.push(x)
                        }
                    }
                }
                x => {
                    if out.len() > 64 || !out.contains(&x) {
                        out.push(x)
                    }
                }
            }
        }
        match out.len() {
            0 => P::T,
            1 => out.pop().unwrap(),
            _ => P::And(out),
        }
    }
    pub fn or(ps: Vec<P>) -> P {
        let mut out: Vec<P> = vec![];
        for p in ps {
            match p {
                P::F => {}
                P::T => return P::T,
                P::Or(v) => {
                    for x in v {
                        if !out.contains(&x) {
                            out.push(x)
                        }
                    }
                }
                x => {
                    if out.len() > 64 || !out.contains(&x) {
                        out.push(x)
                    }
                }
            }
        }
        match out.len() {
            0 => P::F,
            1 => out.pop().unwrap(),
            _ => P::Or(out),
        }
    }
    pub fn imp(a: P, b: P) -> P {
        match (a, b) {
            (P::F, _) => P::T,
            (_, P::T) => P::T,
            (P::T, b) => b,
            (a, P::F) => P::not(a),
            (a, b) => P::Imp(Rc::new(a), Rc::new(b)),
        }
    }
    pub fn iff(a: P, b: P) -> P {
        P::and(vec![P::imp(a.clone(), b.clone()), P::imp(b, a)])
    }
    /// Naive HT evaluation at one interpretation (conformance partner of the tables).
    pub fn ht(&self, h: u64, t: u64, here: bool) -> bool {
        match self {
            P::T => true,
            P::F => false,
            P::Atom(i) => ((if here { h } else { t }) >> i) & 1 == 1,
            P::Not(p) => !p.ht(h, t, false),
            P::And(v) => v.iter().all(|p| p.ht(h, t, here)),
            P::Or(v) => v.iter().any(|p| p.ht(h, t, here)),
            P::Imp(a, b) => {
                (!a.ht(h, t, false) || b.ht(h, t, false))
                    && (!here || !a.ht(h, t, true) || b.ht(h, t, true))
            }
        }
    }
    /// Naive classical evaluation at one interpretation.
    pub fn cl(&self, m: u64) -> bool {
        self.ht(m, m, true)
    }
    pub fn size(&self) -> usize {
        match self {
            P::T | P::F | P::Atom(_) => 1,
            P::Not(p) => 1 + p.size(),
            P::And(v) | P::Or(v) => 1 + v.iter().map(|p| p.size()).sum::<usize>(),
            P::Imp(a, b) => 1 + a.size() + b.size(),
        }
    }
}

/// The atom universe U.
#[derive(Default, Clone, Debug)]
pub struct Universe {
    pub atoms: Vec<(String, Vec<Val>)>,
    pub index: HashMap<(String, Vec<Val>), usize>,
}

impl Universe {
    /// All atoms p(v1..vn) with vi in `active`, for the given predicates.
    pub fn new(preds: &[(String, usize)], active: &[Val]) -> Self {
        let mut u = Universe::default();
        for (p, n) in preds {
            u.add_pred(p, *n, active);
        }
        u
    }
    pub fn add_pred(&mut self, p: &str, n: usize, active: &[Val]) {
        let mut tuples: Vec<Vec<Val>> = vec![vec![]];
        for _ in 0..n {
            let mut nt = vec![];
            for t in &tuples {
                for a in active {
                    let mut x = t.clone();
                    x.push(a.clone());
                    nt.push(x);
                }
            }
            tuples = nt;
        }
        for t in tuples {
            self.add_atom(p, t);
        }
    }
    pub fn add_atom(&mut self, p: &str, t: Vec<Val>) {
        let k = (p.to_string(), t.clone());
        if !self.index.contains_key(&k) {
            self.index.insert(k, self.atoms.len());
            self.atoms.push((p.to_string(), t));
        }
    }
    pub fn len(&self) -> usize {
        self.atoms.len()
    }
    pub fn atom(&self, p: &str, args: &[Val]) -> P {
        match self.index.get(&(p.to_string(), args.to_vec())) {
            Some(i) => P::Atom(*i),
            None => P::F,
        }
    }
    pub fn atom_name(&self, i: usize) -> String {
        let (p, a) = &self.atoms[i];
        if a.is_empty() {
            p.clone()
        } else {
            format!(
                "{}({})",
                p,
                a.iter().map(|v| v.to_string()).collect::<Vec<_>>().join(",")
            )
        }
    }
    pub fn set_names(&self, m: u64) -> Vec<String> {
        (0..self.atoms.len())
            .filter(|i| (m >> i) & 1 == 1)
            .map(|i| self.atom_name(i))
            .collect()
    }
}
