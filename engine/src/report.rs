//! Evidence, violations, known findings, replay artefacts.
use serde_json::{json, Map, Value};
use std::collections::{BTreeMap, HashSet};
use std::sync::atomic::{AtomicU64, Ordering};
use std::sync::Mutex;
use std::time::Instant;

pub const VERIF: &str = "/verif";
/// where evidence and replay files go: /verif, unless VERIF_OUT redirects them (used only by the
/// mutation-analysis lanes of tools/mutate.py, which must not overwrite the real evidence)
pub fn out_root() -> String {
    std::env::var("VERIF_OUT").unwrap_or_else(|_| VERIF.to_string())
}

#[derive(Clone, Debug)]
pub struct Violation {
    /// identity used for matching against KNOWN_FINDINGS.txt (locus + canonical input)
    pub key: String,
    /// everything needed to re-execute the state
    pub replay: Value,
}

pub struct Run {
    pub id: String,
    pub tier: String,
    pub seed: i64,
    pub start: Instant,
    pub states: AtomicU64,
    pub transitions: AtomicU64,
    pub validated: AtomicU64,
    pub evaluations: AtomicU64,
    pub window_unstable: AtomicU64,
    pub skipped: AtomicU64,
    pub cap_hit: AtomicU64,
    pub distinct: Mutex<HashSet<u64>>,
    pub samples: Mutex<Vec<Value>>,
    pub violations: Mutex<Vec<Violation>>,
    pub machinery_errors: Mutex<Vec<String>>,
    pub extra: Mutex<BTreeMap<String, Value>>,
    pub counters: Mutex<BTreeMap<String, u64>>,
    pub assumptions: Mutex<Vec<String>>,
    pub rule: Mutex<String>,
    pub exhaustive: Mutex<bool>,
    pub level: Mutex<String>,
}

impl Run {
    pub fn new(id: &str, tier: &str) -> Run {
        let seed = std::env::var("VERIF_SEED")
            .ok()
            .and_then(|s| s.parse().ok())
            .unwrap_or(0);
        Run {
            id: id.to_string(),
            tier: tier.to_string(),
            seed,
            start: Instant::now(),
            states: AtomicU64::new(0),
            transitions: AtomicU64::new(0),
            validated: AtomicU64::new(0),
            evaluations: AtomicU64::new(0),
            window_unstable: AtomicU64::new(0),
            skipped: AtomicU64::new(0),
            cap_hit: AtomicU64::new(0),
            distinct: Mutex::new(HashSet::new()),
            samples: Mutex::new(vec![]),
            violations: Mutex::new(vec![]),
            machinery_errors: Mutex::new(vec![]),
            extra: Mutex::new(BTreeMap::new()),
            counters: Mutex::new(BTreeMap::new()),
            assumptions: Mutex::new(vec![]),
            rule: Mutex::new(String::new()),
            exhaustive: Mutex::new(true),
            level: Mutex::new("model_checking".into()),
        }
    }
    pub fn quick(&self) -> bool {
        self.tier == "quick"
    }
    pub fn state(&self) {
        self.states.fetch_add(1, Ordering::Relaxed);
        self.evaluations.fetch_add(1, Ordering::Relaxed);
    }
    pub fn trans(&self, n: u64) {
        self.transitions.fetch_add(n, Ordering::Relaxed);
    }
    pub fn valid(&self, n: u64) {
        self.validated.fetch_add(n, Ordering::Relaxed);
    }
    pub fn count(&self, k: &str, n: u64) {
        *self.counters.lock().unwrap().entry(k.to_string()).or_insert(0) += n;
    }
    /// record a distinct non-trivial observation by hash
    pub fn observe(&self, h: u64) {
        self.distinct.lock().unwrap().insert(h);
    }
    pub fn sample(&self, v: Value) {
        let mut s = self.samples.lock().unwrap();
        if s.len() < 12 {
            s.push(v);
        }
    }
    pub fn sample_force(&self, v: Value) {
        let mut s = self.samples.lock().unwrap();
        if s.len() < 40 {
            s.push(v);
        }
    }
    pub fn violation(&self, key: String, replay: Value) {
        if key.starts_with("panic") && last_panic().1.contains("GROUND_BUDGET") {
            // the engine's own expansion budget, not a verdict about anthem
            self.cap_hit.fetch_add(1, Ordering::Relaxed);
            self.sample_force(json!({"cap_hit": "grounding budget exhausted", "state": replay}));
            clear_panic();
            return;
        }
        let mut v = self.violations.lock().unwrap();
        if v.len() < 100000 {
            v.push(Violation { key, replay });
        }
    }
    pub fn machinery(&self, msg: String) {
        let mut m = self.machinery_errors.lock().unwrap();
        if m.len() < 50 {
            m.push(msg);
        }
    }
    pub fn assume(&self, s: &str) {
        self.assumptions.lock().unwrap().push(s.to_string());
    }
    pub fn set_rule(&self, s: &str) {
        *self.rule.lock().unwrap() = s.to_string();
    }
    pub fn set_extra(&self, k: &str, v: Value) {
        self.extra.lock().unwrap().insert(k.to_string(), v);
    }
    pub fn not_exhaustive(&self) {
        *self.exhaustive.lock().unwrap() = false;
    }

    /// Finish: classify violations, write evidence, print protocol lines, return exit code.
    pub fn finish(&self) -> i32 {
        let known = load_known(&self.id);
        let viols = self.violations.lock().unwrap().clone();
        let mut by_key: BTreeMap<String, Vec<&Violation>> = BTreeMap::new();
        for v in &viols {
            by_key.entry(v.key.clone()).or_default().push(v);
        }
        let mut known_seen = vec![];
        let mut unknown = vec![];
        for (k, vs) in &by_key {
            if let Some(desc) = known.get(k) {
                known_seen.push((k.clone(), desc.clone(), vs.len()));
            } else {
                unknown.push((k.clone(), vs));
            }
        }
        let merr = self.machinery_errors.lock().unwrap().clone();
        let dir = format!("{}/replay/{}", out_root(), self.id);
        let _ = std::fs::create_dir_all(&dir);
        // remove stale artefacts of earlier runs
        if let Ok(rd) = std::fs::read_dir(&dir) {
            for e in rd.flatten() {
                let _ = std::fs::remove_file(e.path());
            }
        }
        let mut lines = vec![];
        for (k, desc, n) in &known_seen {
            lines.push(format!(
                "KNOWN-FINDING: property={} {} [{} failing states; key={}]",
                self.id, desc, n, k
            ));
        }
        let mut viol_samples = vec![];
        // simplest (shortest key) first
        unknown.sort_by_key(|(k, _)| (k.len(), k.clone()));
        if !unknown.is_empty() {
            let listing: Vec<String> = unknown
                .iter()
                .map(|(k, vs)| format!("{}\t{}\t{}", vs.len(), k, vs[0].replay.to_string().chars().take(600).collect::<String>()))
                .collect();
            let _ = std::fs::write(format!("{dir}/all_keys.txt"), listing.join("\n"));
        }
        for (i, (k, vs)) in unknown.iter().enumerate() {
            if i >= 20 {
                break;
            }
            let path = format!("{dir}/{i}.json");
            let art = json!({"property": self.id, "key": k, "count": vs.len(), "replay": vs[0].replay});
            let _ = std::fs::write(&path, serde_json::to_string_pretty(&art).unwrap());
            lines.push(format!("VIOLATION property={} replay={}", self.id, path));
            viol_samples.push(json!({"violation_key": k, "count": vs.len(), "first": vs[0].replay}));
        }
        let wall = self.start.elapsed().as_secs_f64();
        let mut samples = self.samples.lock().unwrap().clone();
        for (k, desc, n) in &known_seen {
            samples.push(json!({"known_finding": desc, "key": k, "failing_states": n}));
        }
        samples.extend(viol_samples);
        if samples.is_empty() {
            samples.push(json!("(no samples recorded)"));
        }
        let distinct = self.distinct.lock().unwrap().len() as u64;
        let mut cov = Map::new();
        cov.insert("states".into(), json!(self.states.load(Ordering::Relaxed)));
        cov.insert(
            "transitions".into(),
            json!(self.transitions.load(Ordering::Relaxed)),
        );
        cov.insert(
            "traces_validated_against_impl".into(),
            json!(self.validated.load(Ordering::Relaxed)),
        );
        cov.insert(
            "evaluations".into(),
            json!(self.evaluations.load(Ordering::Relaxed)),
        );
        cov.insert("distinct_nontrivial".into(), json!(distinct));
        cov.insert("rule".into(), json!(self.rule.lock().unwrap().clone()));
        cov.insert("samples".into(), Value::Array(samples));
        cov.insert(
            "exhaustive".into(),
            json!(*self.exhaustive.lock().unwrap() && self.cap_hit.load(Ordering::Relaxed) == 0),
        );
        cov.insert(
            "window_unstable".into(),
            json!(self.window_unstable.load(Ordering::Relaxed)),
        );
        cov.insert("skipped".into(), json!(self.skipped.load(Ordering::Relaxed)));
        cov.insert("cap_hit".into(), json!(self.cap_hit.load(Ordering::Relaxed)));
        cov.insert("known_findings_seen".into(), json!(known_seen.len()));
        cov.insert("failing_states_total".into(), json!(viols.len()));
        for (k, v) in self.counters.lock().unwrap().iter() {
            cov.insert(k.clone(), json!(v));
        }
        for (k, v) in self.extra.lock().unwrap().iter() {
            cov.insert(k.clone(), v.clone());
        }
        let ev = json!({
            "property_id": self.id,
            "tier": self.tier,
            "seed": self.seed,
            "level": self.level.lock().unwrap().clone(),
            "coverage": Value::Object(cov),
            "assumptions": self.assumptions.lock().unwrap().clone(),
            "wall_s": wall,
            "violations": unknown.len(),
            "machinery_errors": merr,
        });
        let _ = std::fs::create_dir_all(format!("{}/evidence", out_root()));
        std::fs::write(
            format!("{}/evidence/{}.json", out_root(), self.id),
            serde_json::to_string_pretty(&ev).unwrap(),
        )
        .expect("cannot write evidence");
        println!(
            "[{}] tier={} states={} transitions={} validated={} distinct_nontrivial={} window_unstable={} cap_hit={} wall={:.1}s",
            self.id,
            self.tier,
            self.states.load(Ordering::Relaxed),
            self.transitions.load(Ordering::Relaxed),
            self.validated.load(Ordering::Relaxed),
            distinct,
            self.window_unstable.load(Ordering::Relaxed),
            self.cap_hit.load(Ordering::Relaxed),
            wall
        );
        for (k, v) in self.counters.lock().unwrap().iter() {
            println!("[{}]   {k} = {v}", self.id);
        }
        for l in &lines {
            println!("{l}");
        }
        if !merr.is_empty() {
            for m in &merr {
                eprintln!("MACHINERY-ERROR [{}]: {m}", self.id);
            }
            return 2;
        }
        if distinct < 2 {
            eprintln!(
                "MACHINERY-ERROR [{}]: vacuous exploration (distinct_nontrivial={distinct})",
                self.id
            );
            return 2;
        }
        if !unknown.is_empty() {
            return 1;
        }
        0
    }
}

/// KNOWN_FINDINGS.txt: lines `known: property=<id> key=<key> :: <description>`;
/// `fixed:` lines are documentation and suppress nothing.
pub fn load_known(id: &str) -> BTreeMap<String, String> {
    let mut m = BTreeMap::new();
    let text = std::fs::read_to_string(format!("{VERIF}/KNOWN_FINDINGS.txt")).unwrap_or_default();
    for line in text.lines() {
        let line = line.trim();
        if let Some(rest) = line.strip_prefix("known:") {
            let rest = rest.trim();
            let Some(rest) = rest.strip_prefix(&format!("property={id} ")) else {
                continue;
            };
            let Some(rest) = rest.strip_prefix("key=") else {
                continue;
            };
            let (key, desc) = match rest.split_once(" :: ") {
                Some((k, d)) => (k.trim().to_string(), d.trim().to_string()),
                None => (rest.trim().to_string(), String::new()),
            };
            m.insert(key, desc);
        }
    }
    m
}

pub fn hash_of<T: std::hash::Hash>(t: &T) -> u64 {
    use std::hash::Hasher;
    let mut h = std::collections::hash_map::DefaultHasher::new();
    t.hash(&mut h);
    h.finish()
}

thread_local! {
    static LAST_PANIC: std::cell::RefCell<(String, String)> = std::cell::RefCell::new((String::new(), String::new()));
}

/// install a quiet panic hook that records location and message per thread
pub fn install_panic_hook() {
    std::panic::set_hook(Box::new(|info| {
        let loc = info.location().map(|l| format!("{}:{}", l.file(), l.line())).unwrap_or_default();
        let msg = info
            .payload()
            .downcast_ref::<String>()
            .cloned()
            .or_else(|| info.payload().downcast_ref::<&str>().map(|s| s.to_string()))
            .unwrap_or_default();
        if let Ok(mut g) = LAST_PANIC_ANY_THREAD.lock() {
            *g = (loc.clone(), msg.clone());
        }
        LAST_PANIC.with(|p| *p.borrow_mut() = (loc, msg));
    }));
}
pub fn clear_panic() {
    LAST_PANIC.with(|p| *p.borrow_mut() = (String::new(), String::new()));
}
pub static LAST_PANIC_ANY_THREAD: std::sync::Mutex<(String, String)> = std::sync::Mutex::new((String::new(), String::new()));
pub fn last_panic() -> (String, String) {
    LAST_PANIC.with(|p| p.borrow().clone())
}


// ------------------------------------------------------------------------------------------------
// Watchdog: a call into anthem that never returns must become a verdict with a replayable item,
// not a check that never ends. Explorers bracket each unit of work with `run.watch(..)`; a
// monitor thread reports the first unit that exceeds the limit, writes the evidence and exits.
// One slot per worker thread (registered once), so the per-item cost is an uncontended lock.
pub struct WatchSlot {
    since_ms: AtomicU64, // 0 = idle, else milliseconds since the run started (+1)
    what: Mutex<(&'static str, &'static str, String, &'static str, &'static str)>, // class key, replay field, item text, second field, its value
}
pub static WATCH_SLOTS: Mutex<Vec<std::sync::Arc<WatchSlot>>> = Mutex::new(Vec::new());
thread_local! {
    static MY_SLOT: std::sync::Arc<WatchSlot> = {
        let s = std::sync::Arc::new(WatchSlot { since_ms: AtomicU64::new(0), what: Mutex::new(("", "", String::new(), "", "")) });
        WATCH_SLOTS.lock().unwrap().push(s.clone());
        s
    };
}
pub struct WatchGuard;
impl Drop for WatchGuard {
    fn drop(&mut self) {
        MY_SLOT.with(|s| s.since_ms.store(0, Ordering::Release));
    }
}
impl Run {
    /// registers the unit of work the calling thread starts now (not nestable); the guard ends it
    pub fn watch(&self, key: &'static str, field: &'static str, item: &str) -> WatchGuard {
        self.watch_with(key, field, item, "", "")
    }
    pub fn watch_with(&self, key: &'static str, field: &'static str, item: &str, field2: &'static str, value2: &'static str) -> WatchGuard {
        MY_SLOT.with(|s| {
            {
                let mut w = s.what.lock().unwrap();
                w.0 = key;
                w.1 = field;
                w.2.clear();
                w.2.push_str(item);
                w.3 = field2;
                w.4 = value2;
            }
            s.since_ms.store(self.start.elapsed().as_millis() as u64 + 1, Ordering::Release);
        });
        WatchGuard
    }
}
pub fn hang_limit_s(run: &Run) -> u64 {
    std::env::var("VERIF_HANG_LIMIT").ok().and_then(|s| s.parse().ok()).unwrap_or(if run.quick() { 30 } else { 120 })
}
pub fn start_watchdog(run: &'static Run) {
    let limit = hang_limit_s(run);
    std::thread::spawn(move || loop {
        std::thread::sleep(std::time::Duration::from_millis(500));
        let now = run.start.elapsed().as_millis() as u64 + 1;
        let mut stuck: Option<(&'static str, &'static str, String, u64, &'static str, &'static str)> = None;
        if let Ok(slots) = WATCH_SLOTS.lock() {
            for slot in slots.iter() {
                let since = slot.since_ms.load(Ordering::Acquire);
                if since != 0 && now.saturating_sub(since) >= limit * 1000 {
                    let w = slot.what.lock().unwrap();
                    stuck = Some((w.0, w.1, w.2.clone(), now.saturating_sub(since) / 1000, w.3, w.4));
                    break;
                }
            }
        }
        if let Some((key, field, item, age, field2, value2)) = stuck {
            let mut m = Map::new();
            m.insert("kind".into(), json!("the call did not return"));
            m.insert("waited_s".into(), json!(age));
            m.insert("limit_s".into(), json!(limit));
            m.insert(field.to_string(), json!(item));
            if !field2.is_empty() {
                m.insert(field2.to_string(), json!(value2));
            }
            run.violation(format!("hang|{key}"), Value::Object(m));
            *run.exhaustive.lock().unwrap() = false;
            run.assume(&format!("exploration stopped at the first unit of work that did not return within {limit} s; the rest of the alphabet was not visited in this run"));
            let code = run.finish();
            std::process::exit(code);
        }
    });
}
