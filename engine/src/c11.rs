//! C11: applicability checks are exact (tightness, private recursion, regularity) and
//! enforced before any obligation is emitted.
use crate::enum_asp::*;
use crate::refsem;
use crate::report::*;
use crate::tasks::*;
use anthem::analyzing::private_recursion::PrivateRecursion as _;
use anthem::analyzing::regularity::Regularity as _;
use anthem::analyzing::tightness::Tightness as _;
use anthem::syntax_tree::asp::mini_gringo as asp;
use anthem::syntax_tree::fol::sigma_0 as fol;
use indexmap::IndexSet;
use rayon::prelude::*;
use serde_json::json;

// ------------------------------------------------------------------ (a) dependency graphs

fn abstract_rules() -> (Vec<asp::Rule>, Vec<String>) {
    let heads = ["p", "p(X)", "q", "q(X)", "{p}", "{p(X)}", "{q}", "{q(X)}", ""];
    let atoms = ["p", "p(X)", "q", "q(X)"];
    let signs = ["", "not ", "not not "];
    let mut lits: Vec<String> = vec![];
    for s in signs {
        for a in atoms {
            lits.push(format!("{s}{a}"));
        }
    }
    let mut bodies: Vec<String> = vec![String::new()];
    for l in &lits {
        bodies.push(l.clone());
    }
    for i in 0..lits.len() {
        for j in i..lits.len() {
            bodies.push(format!("{}, {}", lits[i], lits[j]));
        }
    }
    let mut rules = vec![];
    let mut texts = vec![];
    for h in heads {
        for b in &bodies {
            let t = if b.is_empty() {
                if h.is_empty() {
                    continue;
                }
                format!("{h}.")
            } else {
                format!("{h} :- {b}.")
            };
            let r: asp::Rule = t.parse().unwrap_or_else(|_| panic!("alphabet rule does not parse: {t}"));
            rules.push(r);
            texts.push(t);
        }
    }
    (rules, texts)
}

fn preds4() -> Vec<(String, usize)> {
    vec![("p".into(), 0), ("p".into(), 1), ("q".into(), 0), ("q".into(), 1)]
}

fn check_graphs(run: &Run, rules: &[&asp::Rule], texts: &[&str], private_masks: &[u32]) {
    let _w = run.watch("program", "program", &texts.join(" "));
    let prog = asp::Program { rules: rules.iter().map(|r| (*r).clone()).collect() };
    run.state();
    let tight = prog.is_tight();
    let want = !refsem::positive_dependency_cyclic(&prog);
    run.trans(1);
    run.observe(hash_of(&(want, rules.len())));
    if tight != want {
        run.violation(
            format!("tightness|{}", texts.join(" ")),
            json!({"kind": "is_tight() disagrees with acyclicity of the positive dependency graph", "program": texts.join(" "), "is_tight": tight, "reference": want}),
        );
    }
    let all = preds4();
    for m in private_masks {
        let private: Vec<(String, usize)> = all.iter().enumerate().filter(|(i, _)| (m >> i) & 1 == 1).map(|(_, p)| p.clone()).collect();
        let set: IndexSet<asp::Predicate> = private.iter().map(|(s, a)| asp::Predicate { symbol: s.clone(), arity: *a }).collect();
        let got = prog.has_private_recursion(&set);
        let want = refsem::private_recursion(&prog, &private);
        run.trans(1);
        if got != want {
            run.violation(
                format!("private_recursion|{}|{private:?}", texts.join(" ")),
                json!({"kind": "has_private_recursion disagrees with the reference", "program": texts.join(" "), "private": format!("{private:?}"), "anthem": got, "reference": want}),
            );
        }
    }
}

// ------------------------------------------------------------------ (b) regularity

fn contains_sym_inf_sup(t: &asp::Term) -> bool {
    match t {
        asp::Term::Variable(_) => false,
        asp::Term::PrecomputedTerm(asp::PrecomputedTerm::Numeral(_)) => false,
        asp::Term::PrecomputedTerm(_) => true,
        asp::Term::UnaryOperation { arg, .. } => contains_sym_inf_sup(arg),
        asp::Term::BinaryOperation { lhs, rhs, .. } => contains_sym_inf_sup(lhs) || contains_sym_inf_sup(rhs),
    }
}
fn only_add_sub_mul(t: &asp::Term) -> bool {
    match t {
        asp::Term::Variable(_) | asp::Term::PrecomputedTerm(_) => true,
        asp::Term::UnaryOperation { arg, .. } => only_add_sub_mul(arg),
        asp::Term::BinaryOperation { op, lhs, rhs } => {
            matches!(op, asp::BinaryOperator::Add | asp::BinaryOperator::Subtract | asp::BinaryOperator::Multiply) && only_add_sub_mul(lhs) && only_add_sub_mul(rhs)
        }
    }
}
/// the manual's "regular of first kind"
fn first_kind(t: &asp::Term) -> bool {
    match t {
        asp::Term::Variable(_) | asp::Term::PrecomputedTerm(_) => true,
        _ => only_add_sub_mul(t) && !contains_sym_inf_sup(t),
    }
}
/// the manual's "regular of second kind"
fn second_kind(t: &asp::Term) -> bool {
    match t {
        asp::Term::BinaryOperation { op: asp::BinaryOperator::Interval, lhs, rhs } => first_kind(lhs) && first_kind(rhs) && !contains_sym_inf_sup(lhs) && !contains_sym_inf_sup(rhs),
        _ => false,
    }
}
fn rule_regular(r: &asp::Rule) -> bool {
    for f in &r.body.formulas {
        match f {
            asp::AtomicFormula::Literal(l) => {
                if !l.atom.terms.iter().all(first_kind) {
                    return false;
                }
            }
            asp::AtomicFormula::Comparison(c) => {
                let k1 = first_kind(&c.lhs) && first_kind(&c.rhs);
                let k2 = c.relation == asp::Relation::Equal && first_kind(&c.lhs) && second_kind(&c.rhs);
                if !(k1 || k2) {
                    return false;
                }
            }
        }
    }
    match &r.head {
        asp::Head::Falsity => true,
        asp::Head::Basic(a) | asp::Head::Choice(a) => a.terms.iter().all(|t| first_kind(t) || second_kind(t)),
    }
}

// ------------------------------------------------------------------ (c) enforcement

fn enforcement_programs() -> Vec<&'static str> {
    vec![
        "out(X) :- in(X).",
        "out(X) :- in(X), not aux(X). aux(X) :- in(X), X > 1.",
        "out(X) :- in(X), out(X).",
        "out(X) :- aux(X). aux(X) :- out(X), in(X).",
        "aux(X) :- in(X), aux(X). out(X) :- aux(X).",
        "aux(X) :- in(X), not aux2(X). aux2(X) :- in(X), not aux(X). out(X) :- aux(X).",
        "aux(X) :- in(X), not not aux(X). out(X) :- aux(X).",
        "{aux(X)} :- in(X). out(X) :- aux(X).",
        "{out(X)} :- in(X).",
        "in(X) :- out(X). out(1).",
        "{in(1)}. out(X) :- in(X).",
        "aux :- not aux2. aux2 :- not aux. out(X) :- in(X), aux.",
        "aux(X) :- in(X), aux(X, X). aux(X, Y) :- in(X), in(Y). out(X) :- aux(X).",
        "aux(X) :- aux2(X). aux2(X) :- aux3(X). aux3(X) :- aux(X), in(X). out(X) :- aux(X).",
        "out(X) :- in(X), not out(X).",
        "out(X) :- out2(X). out2(X) :- out(X), in(X).",
        ":- aux(X), not aux(X). aux(X) :- in(X). out(X) :- aux(X).",
    ]
}
fn enforcement_guides() -> Vec<&'static str> {
    vec![
        "input: in/1. output: out/1.",
        "input: in/1. output: out/1. output: out2/1.",
        "input: in/1. output: out/1. output: in/1.",
        "input: in/1. input: out/1. output: out/1.",
        "input: in/1. output: out/1. assumption: forall X (in(X) -> out(X)).",
        "input: in/1. output: out/1. assumption: forall X (in(X) -> not aux(X)).",
        "input: in/1. output: out/1. assumption: forall X (in(X) -> X > 0).",
        "input: in/1. output: out/1. input: n -> integer. input: n -> symbol.",
        "input: in/1. output: out/1. input: n -> integer. input: n -> integer.",
        "input: in/1. output: out/1. input: aux/1.",
        "input: in/1. output: out/1. output: aux/1.",
        "input: in/1. output: out/1. output: aux/1. output: aux2/1.",
        // direction-annotated user-guide assumptions: the conditions do not depend on the annotation
        "input: in/1. output: out/1. assumption(backward): forall X (aux(X) -> in(X)).",
        "input: in/1. output: out/1. assumption(forward): forall X (in(X) -> not aux(X)).",
        "input: in/1. output: out/1. assumption(backward): forall X (in(X) -> out(X)).",
        "input: in/1. output: out/1. assumption(backward): forall X (in(X) -> X > 0).",
        "input: in/1. output: out/1. assumption(universal): forall X (zzz(X) -> in(X)).",
    ]
}
fn enforcement_specs() -> Vec<&'static str> {
    vec![
        "spec: forall X (out(X) <-> in(X)).",
        "assumption: forall X (out(X) -> in(X)). spec: forall X (out(X) <-> in(X)).",
        "assumption: forall X (in(X) -> X > 0). spec: forall X (out(X) <-> in(X)).",
        "assumption: forall X (aux(X) <-> in(X)). spec: forall X (out(X) <-> aux(X)).",
        "assumption: forall X (zzz(X) <-> in(X)). spec: forall X (out(X) <-> zzz(X)).",
        "lemma: forall X (out(X) -> in(X)). spec: forall X (out(X) <-> in(X)).",
        "definition: forall X (fresh(X) <-> in(X)). spec: forall X (out(X) <-> in(X)).",
        "inductive-lemma: forall N$i (N$i >= 0 -> in(N$i)). spec: forall X (out(X) <-> in(X)).",
    ]
}

struct Conds {
    ok: bool,
    why: Vec<String>,
}

/// reference predicate "all listed conditions hold"
fn reference_conditions(t: &ExtTask, bypass: bool) -> Option<Conds> {
    let ug: fol::UserGuide = t.ug.parse().ok()?;
    let right: asp::Program = t.right.parse().ok()?;
    let inputs: Vec<(String, usize)> = ug.input_predicates().into_iter().map(|p| (p.symbol, p.arity)).collect();
    let outputs: Vec<(String, usize)> = ug.output_predicates().into_iter().map(|p| (p.symbol, p.arity)).collect();
    let mut why = vec![];
    let public: Vec<(String, usize)> = inputs.iter().chain(outputs.iter()).cloned().collect();
    let check_prog = |p: &asp::Program, side: &str, why: &mut Vec<String>| {
        if !bypass && refsem::positive_dependency_cyclic(p) {
            why.push(format!("{side} program is not tight"));
        }
        let private: Vec<(String, usize)> = p.predicates().into_iter().map(|q| (q.symbol, q.arity)).filter(|k| !public.contains(k)).collect();
        if refsem::private_recursion(p, &private) {
            why.push(format!("{side} program has private recursion"));
        }
        for h in refsem::head_predicates(p) {
            if inputs.contains(&h) {
                why.push(format!("input predicate {}/{} heads a rule of the {side} program", h.0, h.1));
            }
        }
    };
    check_prog(&right, "right", &mut why);
    if inputs.iter().any(|i| outputs.contains(i)) {
        why.push("input and output declarations overlap".into());
    }
    for f in ug.formulas() {
        if f.role == fol::Role::Assumption {
            for q in f.formula.predicates() {
                if !inputs.contains(&(q.symbol.clone(), q.arity)) {
                    why.push(format!("user-guide assumption mentions non-input predicate {}/{}", q.symbol, q.arity));
                }
            }
        }
    }
    // a placeholder declared with two sorts
    let mut seen: Vec<(String, fol::Sort)> = vec![];
    for e in &ug.entries {
        if let fol::UserGuideEntry::PlaceholderDeclaration(p) = e {
            if seen.iter().any(|(n, s)| *n == p.name && *s != p.sort) {
                why.push(format!("placeholder {} declared with two sorts", p.name));
            }
            seen.push((p.name.clone(), p.sort));
        }
    }
    if t.left_is_spec {
        let spec: fol::Specification = t.left.parse().ok()?;
        for f in &spec.formulas {
            if f.role == fol::Role::Assumption {
                for q in f.formula.predicates() {
                    if outputs.contains(&(q.symbol.clone(), q.arity)) {
                        why.push(format!("specification assumption mentions output predicate {}/{}", q.symbol, q.arity));
                    }
                }
            }
        }
    } else {
        let left: asp::Program = t.left.parse().ok()?;
        check_prog(&left, "left", &mut why);
    }
    Some(Conds { ok: why.is_empty(), why })
}

pub fn run(run: &Run) {
    let quick = run.quick();
    run.set_rule("(a) every 1- and 2-rule program over 9 heads (basic/choice over p/0,p/1,q/0,q/1, constraint) x 91 bodies (<= 2 signed literals), every 3-rule program over single-literal bodies (stride in quick), every program of <= 5 single-positive-literal rules over 4 predicates: is_tight() vs acyclicity of the positive dependency graph, has_private_recursion vs reference for all 16 private sets; (b) every rule of C01's alphabets: is_regular() vs the manual's definition; (c) 17 programs x 17 programs/6 specifications x 17 user guides (incl. direction-annotated assumptions) x bypass flag: decompose() returns problems only if the reference conditions all hold; non-trivial = distinct (verdict, shape) observations");
    run.assume("the reference conditions are the ones listed in the property; enforcement is checked one-directionally (problems only if conditions hold)");
    // (a)
    let (rules, texts) = abstract_rules();
    run.set_extra("abstract_rules", json!(rules.len()));
    let masks_all: Vec<u32> = (0..16).collect();
    let n = rules.len();
    (0..n).into_par_iter().for_each(|i| {
        check_graphs(run, &[&rules[i]], &[&texts[i]], &masks_all);
        for j in i..n {
            if quick && (i + j) % 3 != 0 {
                continue;
            }
            let masks: Vec<u32> = if quick { vec![((i + j) % 16) as u32, 15, 5] } else { masks_all.clone() };
            check_graphs(run, &[&rules[i], &rules[j]], &[&texts[i], &texts[j]], &masks);
        }
    });
    // 3-rule programs over single-literal bodies
    let single: Vec<usize> = (0..n).filter(|i| !texts[*i].contains(',')).collect();
    run.set_extra("single_literal_rules", json!(single.len()));
    single.par_iter().for_each(|&i| {
        for &j in &single {
            if j < i {
                continue;
            }
            for &k in &single {
                if k < j {
                    continue;
                }
                if (i + 2 * j + 3 * k) % (if quick { 29 } else { 3 }) != 0 {
                    continue;
                }
                check_graphs(run, &[&rules[i], &rules[j], &rules[k]], &[&texts[i], &texts[j], &texts[k]], &[15, ((i + j + k) % 16) as u32]);
            }
        }
    });
    // long cycles: <= 5 rules a :- b over 4 predicates
    let names = ["p", "p(X)", "q", "q(X)"];
    let mut edge_rules = vec![];
    for h in names {
        for b in names {
            let t = format!("{h} :- {b}.");
            edge_rules.push((t.parse::<asp::Rule>().unwrap(), t));
        }
    }
    let m = edge_rules.len();
    let mut combos: Vec<Vec<usize>> = vec![];
    fn rec(start: usize, m: usize, cur: &mut Vec<usize>, out: &mut Vec<Vec<usize>>, max: usize) {
        if cur.len() >= 3 {
            out.push(cur.clone());
        }
        if cur.len() == max {
            return;
        }
        for i in start..m {
            cur.push(i);
            rec(i + 1, m, cur, out, max);
            cur.pop();
        }
    }
    rec(0, m, &mut vec![], &mut combos, if quick { 4 } else { 5 });
    run.set_extra("long_cycle_programs", json!(combos.len()));
    combos.par_iter().for_each(|c| {
        let rs: Vec<&asp::Rule> = c.iter().map(|i| &edge_rules[*i].0).collect();
        let ts: Vec<&str> = c.iter().map(|i| edge_rules[*i].1.as_str()).collect();
        check_graphs(run, &rs, &ts, &[15, 10]);
    });
    // (b) regularity
    let lv = leaves(false);
    let mut rtexts: Vec<String> = vec![];
    let t1 = terms_upto(1, &lv);
    for ctx in single_term_contexts() {
        for t in &t1 {
            rtexts.push(inst(ctx, t));
        }
    }
    let t0 = terms_exact(0, &lv);
    for r in RELS {
        for a in &t1 {
            for b in &t0 {
                rtexts.push(inst2("r :- {0} {R} {1}, q(X).", a, r, b));
                rtexts.push(inst2("r :- {0} {R} {1}, q(X).", b, r, a));
            }
        }
    }
    if !quick {
        for t in terms_exact(2, &lv) {
            rtexts.push(inst("p({}) :- q(X), q(Y).", &t));
            rtexts.push(inst("r :- q({}).", &t));
            rtexts.push(inst("r :- X = {}.", &t));
        }
    }
    run.set_extra("regularity_rules", json!(rtexts.len()));
    rtexts.par_iter().for_each(|t| {
        let _w = run.watch("program", "program", t);
        let Ok(p) = t.parse::<asp::Program>() else { return };
        run.state();
        run.trans(1);
        let got = p.is_regular();
        let want = p.rules.iter().all(rule_regular);
        run.observe(hash_of(&(want, "regular")));
        if got != want {
            run.violation(format!("regularity|{t}"), json!({"kind": "is_regular() disagrees with the manual's definition", "program": t, "is_regular": got, "reference": want}));
        }
    });
    // (c) enforcement
    let progs = enforcement_programs();
    let mut tasks = vec![];
    for r in &progs {
        for ug in enforcement_guides() {
            for l in &progs {
                tasks.push(ExtTask { left: l.to_string(), left_is_spec: false, right: r.to_string(), ug: ug.to_string(), po: String::new() });
            }
            for s in enforcement_specs() {
                tasks.push(ExtTask { left: s.to_string(), left_is_spec: true, right: r.to_string(), ug: ug.to_string(), po: String::new() });
            }
        }
    }
    run.set_extra("enforcement_tasks", json!(tasks.len()));
    let f = Flags { dec: anthem::verif::Decomposition::Sequential, simplify: true, eqb: true };
    tasks.par_iter().for_each(|t| {
        let _w = run.watch("task", "task_key", &t.key());
        for bypass in [false, true] {
            let Some(c) = reference_conditions(t, bypass) else { continue };
            run.state();
            run.trans(1);
            let res = std::panic::catch_unwind(std::panic::AssertUnwindSafe(|| build_external(t, &f, fol::Direction::Universal, bypass)));
            match res {
                Err(_) => run.violation(format!("panic|{}|{bypass}", t.key()), json!({"kind": "panic in decompose", "task": t.describe(), "bypass_tightness": bypass})),
                Ok(Ok(ps)) => {
                    run.count("enforcement_accepted", 1);
                    run.observe(hash_of(&("accepted", c.ok)));
                    if !c.ok {
                        run.violation(
                            format!("accepted_despite|{}|{}|{bypass}", c.why[0], t.key()),
                            json!({"kind": "task yields problems although a listed condition fails", "task": t.describe(), "bypass_tightness": bypass, "failed_conditions": c.why, "problems": ps.len()}),
                        );
                    }
                }
                Ok(Err(e)) => {
                    run.count("enforcement_refused", 1);
                    run.observe(hash_of(&("refused", c.ok, e.chars().take(30).collect::<String>())));
                    if c.ok {
                        run.count("refused_although_reference_conditions_hold", 1);
                    }
                }
            }
        }
    });
}

pub fn replay(v: &serde_json::Value) -> i32 {
    let r = &v["replay"];
    if let Some(t) = r.get("task").filter(|t| !t.is_null()) {
        let task = ExtTask {
            left: t["left"].as_str().unwrap_or("").into(),
            left_is_spec: t["left_is_spec"].as_bool().unwrap_or(false),
            right: t["right"].as_str().unwrap_or("").into(),
            ug: t["user_guide"].as_str().unwrap_or("").into(),
            po: t["proof_outline"].as_str().unwrap_or("").into(),
        };
        let bypass = r["bypass_tightness"].as_bool().unwrap_or(false);
        let f = Flags { dec: anthem::verif::Decomposition::Sequential, simplify: true, eqb: true };
        let c = reference_conditions(&task, bypass);
        let res = std::panic::catch_unwind(std::panic::AssertUnwindSafe(|| build_external(&task, &f, fol::Direction::Universal, bypass)));
        let accepted = matches!(&res, Ok(Ok(_)));
        let ok = c.as_ref().map(|c| c.ok).unwrap_or(true);
        println!("replay: accepted={accepted} panicked={} reference_conditions_hold={ok} failed={:?}", res.is_err(), c.map(|c| c.why));
        return if res.is_err() || (accepted && !ok) { 1 } else { 0 };
    }
    if let Some(p) = r["program"].as_str() {
        let Ok(prog) = p.parse::<asp::Program>() else { return 2 };
        let t = prog.is_tight();
        let want = !refsem::positive_dependency_cyclic(&prog);
        let reg = prog.is_regular();
        let wreg = prog.rules.iter().all(rule_regular);
        println!("replay `{p}`: is_tight={t} reference={want}; is_regular={reg} reference={wreg}");
        return if t != want || reg != wreg { 1 } else { 0 };
    }
    2
}
