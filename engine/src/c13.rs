//! C13: a proof outline cannot make an unjustified claim available as an axiom.
use crate::dom::*;
use crate::ground::{sort_ok, G};
use crate::report::*;
use crate::sem::*;
use crate::tasks::*;
use crate::tt::*;
use anthem::syntax_tree::fol::sigma_0 as fol;
use anthem::verif::{Decomposition, Problem, Role};
use rayon::prelude::*;
use serde_json::{json, Value};

#[derive(Clone, Debug)]
pub struct Entry {
    pub role: &'static str, // lemma | inductive-lemma | definition
    pub dir: &'static str,  // universal | forward | backward
    pub body: &'static str,
    /// for definitions: is it valid in a context where `d1` may have been defined earlier?
    pub def_pred: Option<(&'static str, usize)>,
    /// reason the reference considers the definition invalid (None = depends on context only)
    pub invalid: Option<&'static str>,
}

fn entry_alphabet() -> Vec<Entry> {
    let mut v = vec![];
    let lem = |b: &'static str| Entry { role: "lemma", dir: "", body: b, def_pred: None, invalid: None };
    let ind = |b: &'static str| Entry { role: "inductive-lemma", dir: "", body: b, def_pred: None, invalid: None };
    let def = |b: &'static str, p: (&'static str, usize), inv: Option<&'static str>| Entry { role: "definition", dir: "", body: b, def_pred: Some(p), invalid: inv };
    v.push(lem("forall X (out(X) -> in(X))"));
    v.push(lem("out(X) -> in(X)"));
    v.push(lem("exists X in(X) or not exists Y out(Y)"));
    v.push(lem("forall X (d1(X) -> in(X))"));
    v.push(ind("forall N$i (N$i >= 0 -> (in(N$i) -> out(N$i)))"));
    v.push(ind("forall N$i X (N$i >= -1 -> (in(N$i) and in(X) -> out(X)))"));
    v.push(ind("forall N$i (N$i >= 1 -> (exists N$i (in(N$i)) or out(N$i)))"));
    // the antecedent of an inductive lemma is ONE comparison N >= n; a chain is malformed
    v.push(Entry { role: "inductive-lemma", dir: "", body: "forall N$i (N$i >= 0 != N$i - 1 -> in(N$i))", def_pred: None, invalid: Some("malformed inductive antecedent (chained comparison)") });
    v.push(Entry { role: "inductive-lemma", dir: "", body: "forall N$i (N$i >= 0 >= 0 -> (in(N$i) -> out(N$i)))", def_pred: None, invalid: Some("malformed inductive antecedent (chained comparison)") });
    // a general variable that shares its name with the integer induction variable (quantified before it / free)
    v.push(ind("forall N N$i (N$i >= 0 -> (in(N) and in(N$i) -> out(N$i) or out(N)))"));
    v.push(ind("forall N$i (N$i >= 0 -> (in(N) -> out(N$i)))"));
    v.push(def("forall X (d1(X) <-> in(X) and X > 1)", ("d1", 1), None));
    v.push(def("forall X (d2(X) <-> d1(X) or out(X))", ("d2", 1), None));
    v.push(def("forall X (out(X) <-> in(X))", ("out", 1), Some("defines a task predicate")));
    v.push(def("forall X (aux(X) <-> in(X))", ("aux", 1), None)); // valid only where aux is not a task predicate
    v.push(def("forall X (aux_p(X) <-> in(X))", ("aux_p", 1), None)); // valid only if aux_p does not occur in the emitted task
    v.push(def("forall X (in2(X) <-> in(X) and X > 1)", ("in2", 1), None)); // valid only where in2 is not declared / used by the task
    v.push(def("forall X (d3(X, X) <-> in(X))", ("d3", 2), Some("repeated / mismatching variables")));
    v.push(def("forall X (d3(1) <-> in(X))", ("d3", 1), Some("non-variable argument")));
    v.push(def("forall X (d3(X) <-> in(Y))", ("d3", 1), Some("free variable in the body")));
    v.push(def("forall X (d3(X) <-> d3(X) and in(X))", ("d3", 1), Some("body mentions the defined predicate")));
    v.push(def("forall X (d3(X) <-> und(X))", ("d3", 1), Some("body mentions an undefined predicate")));
    v.push(def("forall X (d3(X) -> in(X))", ("d3", 1), Some("not an equivalence")));
    v.push(def("forall X Y (d3(X) <-> in(X))", ("d3", 1), Some("quantified variables differ from the arguments")));
    // a task predicate's symbol at another arity is a new predicate; 0-ary definitions
    v.push(def("forall X Y (out(X, Y) <-> in(X) and in(Y) and X < Y)", ("out", 2), None));
    v.push(def("forall X Y (aux(X, Y) <-> in(X) and out(Y))", ("aux", 2), None));
    v.push(def("d0 <-> exists X (in(X) and X > 1)", ("d0", 0), None));
    v.push(lem("forall X Y (out(X, Y) -> in(X)) and (d0 -> exists X in(X))"));
    v
}

fn base_tasks() -> Vec<ExtTask> {
    let mk = |l: &str, spec: bool, r: &str, ug: &str| ExtTask { left: l.into(), left_is_spec: spec, right: r.into(), ug: ug.into(), po: String::new() };
    vec![
        mk("out(X) :- in(X).", false, "out(X) :- in(X), not not in(X).", "input: in/1. output: out/1. assumption[ug1]: forall X (in(X) -> X > 0)."),
        mk("out(X) :- in(X), not aux(X). aux(X) :- in(X), X > 1.", false, "aux(X) :- in(X), X <= 1. out(X) :- aux(X).", "input: in/1. output: out/1."),
        mk("spec(universal)[s1]: forall X (out(X) -> in(X)). spec(backward)[s2]: forall X (in(X) -> out(X)). assumption(forward)[a1]: forall X (in(X) -> X > 0).", true, "out(X) :- in(X).", "input: in/1. output: out/1."),
        mk("out(X) :- in(X), X <= n.", false, "out(X) :- in(X), not X > n.", "input: in/1. output: out/1. input: n -> integer."),
        mk("spec(universal)[s1]: forall X (out(X) <-> in(X)). assumption(backward)[ab]: forall X (in(X) -> X > 0). assumption(forward)[af]: exists X in(X).", true, "out(X) :- in(X).", "input: in/1. output: out/1."),
        mk("out(X) :- in(X).", false, "out(X) :- in(X), not not in(X).", "input: in/1. input: in2/1. output: out/1. assumption[ug1]: exists X in2(X)."),
        mk("out(X) :- in(X).", false, "out(X) :- in(X), not not in(X).", "input: in/1. input: in2/1. output: out/1."),
    ]
}

fn strip(name: &str) -> String {
    // formula_<i>_<name>
    let rest = name.strip_prefix("formula_").unwrap_or(name);
    match rest.find('_') {
        Some(k) if rest[..k].chars().all(|c| c.is_ascii_digit()) => rest[k + 1..].to_string(),
        _ => rest.to_string(),
    }
}

struct Outline {
    entries: Vec<(Entry, String)>, // entry, unique name
    text: String,
}

fn make_outline(es: &[Entry]) -> Outline {
    let mut entries = vec![];
    let mut text = String::new();
    for (i, e) in es.iter().enumerate() {
        let name = format!("{}{}", &e.role[..1], i);
        text.push_str(&format!("{}({})[{}]: {}. ", e.role, e.dir, name, e.body));
        entries.push((e.clone(), name));
    }
    Outline { entries, text }
}

fn in_dir(e: &Entry, d: &str) -> bool {
    e.dir == "universal" || e.dir == d
}

/// expected consequence (axiom form) of an outline lemma: its universal closure with the
/// placeholders of the user guide replaced, as the outline stage documents it
fn consequence(e: &Entry, placeholders: &indexmap::IndexMap<String, fol::FunctionConstant>) -> Option<fol::Formula> {
    let af: fol::AnnotatedFormula = format!("{}: {}", e.role, e.body).parse().ok()?;
    Some(af.replace_placeholders(placeholders).universal_closure_with_quantifier_joining().replace_placeholders(placeholders).formula)
}

/// structural check of one emitted family; formulas are identified by their content, not by
/// their names. Returns violations (key, detail)
fn check_family(
    o: &Outline,
    problems: &[Problem],
    plain: &[Problem],
    task_dir: &str,
    placeholders: &indexmap::IndexMap<String, fol::FunctionConstant>,
) -> Vec<(String, Value)> {
    let mut out = vec![];
    // routing of the ANNOTATED formulas of the base tasks, stated independently of anthem: an
    // assumption(backward) of a specification is ignored (never an axiom), an assumption(forward) of a
    // specification is a premise of the forward direction only. The names are those given in base_tasks().
    for p in problems.iter().chain(plain.iter()) {
        for f in p.formulas.iter().filter(|f| f.role == Role::Axiom) {
            let n = strip(&f.name);
            if n == "ab" {
                out.push(("ignored_assumption_used_as_axiom".to_string(), json!({"kind": "a specification's assumption(backward) occurs as an axiom", "problem": p.name, "formula": f.formula.to_string()})));
            }
            if (n == "a1" || n == "af") && !p.name.starts_with("forward") {
                out.push(("forward_assumption_in_backward_problem".to_string(), json!({"kind": "a specification's assumption(forward) occurs as an axiom outside the forward direction", "problem": p.name, "formula": f.formula.to_string()})));
            }
        }
    }
    for d in ["forward", "backward"] {
        if task_dir != "universal" && task_dir != d {
            if problems.iter().any(|p| p.name.starts_with(d)) {
                out.push((format!("direction_leak|{d}"), json!({"kind": "problems of a direction that was not requested"})));
            }
            continue;
        }
        let lemmas: Vec<&(Entry, String)> = o.entries.iter().filter(|(e, _)| e.role != "definition" && in_dir(e, d)).collect();
        let defs: Vec<fol::Formula> = o
            .entries
            .iter()
            .filter(|(e, _)| e.role == "definition" && in_dir(e, d))
            .filter_map(|(e, _)| e.body.parse::<fol::Formula>().ok().map(|f| f.replace_placeholders(placeholders)))
            .collect();
        let lemma_cons: Vec<Option<fol::Formula>> = lemmas.iter().map(|(e, _)| consequence(e, placeholders)).collect();
        let other_cons: Vec<fol::Formula> = o.entries.iter().filter(|(e, _)| e.role != "definition" && !in_dir(e, d)).filter_map(|(e, _)| consequence(e, placeholders)).collect();
        // premises of this direction: every formula of the corresponding problems of the run
        // without outline (final problems), and its axioms (outline problems)
        let premises_all: Vec<fol::Formula> = plain.iter().filter(|p| p.name.starts_with(d)).flat_map(|p| p.formulas.iter().map(|f| f.formula.clone())).collect();
        let premises_ax: Vec<fol::Formula> = plain.iter().filter(|p| p.name.starts_with(d)).flat_map(|p| p.formulas.iter().filter(|f| f.role == Role::Axiom).map(|f| f.formula.clone())).collect();
        let mut established: Vec<Option<usize>> = vec![None; lemmas.len()];
        let mut last_outline_pos = None;
        let mut first_final_pos = None;
        for (pos, p) in problems.iter().enumerate() {
            if !p.name.starts_with(d) {
                continue;
            }
            let conj: Vec<&anthem::verif::AnnotatedFormula> = p.formulas.iter().filter(|f| f.role == Role::Conjecture).collect();
            let axioms: Vec<&anthem::verif::AnnotatedFormula> = p.formulas.iter().filter(|f| f.role == Role::Axiom).collect();
            let is_outline = p.name.contains("_outline_");
            let usable: usize; // lemmas with index < usable may appear as axioms
            if is_outline {
                last_outline_pos = Some(pos);
                let parts: Vec<&str> = p.name.split('_').collect();
                let (i, j): (usize, usize) = (parts.get(2).and_then(|x| x.parse().ok()).unwrap_or(999), parts.get(3).and_then(|x| x.parse().ok()).unwrap_or(999));
                if i >= lemmas.len() {
                    out.push((format!("unexpected_outline_problem|{d}"), json!({"problem": p.name})));
                    continue;
                }
                let (le, _) = lemmas[i];
                if conj.len() != 1 {
                    out.push((format!("wrong_conjecture|{d}"), json!({"problem": p.name, "conjectures": conj.len()})));
                } else if le.role == "lemma" {
                    // a plain lemma is established by proving exactly its closure
                    if Some(&conj[0].formula) != lemma_cons[i].as_ref() {
                        out.push((format!("wrong_conjecture|{d}"), json!({"problem": p.name, "expected": lemma_cons[i].as_ref().map(|f| f.to_string()), "found": conj[0].formula.to_string()})));
                    }
                    if j != 0 {
                        out.push((format!("unexpected_outline_problem|{d}"), json!({"problem": p.name})));
                    }
                } else if j > 1 {
                    out.push((format!("unexpected_outline_problem|{d}"), json!({"problem": p.name})));
                }
                established[i] = Some(pos);
                usable = i;
            } else {
                if first_final_pos.is_none() {
                    first_final_pos = Some(pos);
                }
                usable = lemmas.len();
            }
            for a in &axioms {
                let f = &a.formula;
                if (if is_outline { &premises_ax } else { &premises_all }).contains(f) {
                    continue;
                }
                if is_outline && defs.contains(f) {
                    continue;
                }
                if let Some(k) = (0..usable).find(|k| lemma_cons[*k].as_ref() == Some(f)) {
                    match established[k] {
                        Some(epos) if epos < pos => continue,
                        _ => {
                            out.push((format!("lemma_before_established|{d}"), json!({"problem": p.name, "lemma": lemmas[k].1, "kind": "lemma used as an axiom before (or without) the problems that establish it"})));
                            continue;
                        }
                    }
                }
                let class = if other_cons.contains(f) {
                    "opposite_direction_leak"
                } else if lemma_cons.iter().any(|c| c.as_ref() == Some(f)) || o.entries.iter().any(|(e, _)| e.body.parse::<fol::Formula>().ok().as_ref() == Some(f)) {
                    "outline_entry_not_yet_available"
                } else {
                    "unjustified_axiom"
                };
                out.push((
                    format!("{class}|{d}"),
                    json!({"problem": p.name, "axiom": a.name, "formula": f.to_string(), "kind": "axiom is neither a premise of this direction, nor an accepted definition, nor a lemma established earlier"}),
                ));
            }
        }
        if let (Some(lo), Some(ff)) = (last_outline_pos, first_final_pos) {
            if ff < lo {
                out.push((format!("final_before_outline|{d}"), json!({"kind": "a final problem precedes an outline problem of its direction"})));
            }
        }
        // every lemma of the direction must have its establishing problems
        for (i, (le, ln)) in lemmas.iter().enumerate() {
            let need = if le.role == "lemma" { 1 } else { 2 };
            let have = problems.iter().filter(|p| p.name.starts_with(&format!("{d}_outline_{i}_"))).count();
            if have != need {
                out.push((format!("missing_obligation|{d}"), json!({"lemma": ln, "expected_problems": need, "found": have})));
            }
        }
    }
    out
}

/// reference: is the sequence of definitions acceptable?
fn definitions_valid(o: &Outline, task_preds: &[(String, usize)]) -> Option<String> {
    let mut defined: Vec<(String, usize)> = vec![];
    for (e, name) in &o.entries {
        // an entry the reference considers malformed (of any role) makes the whole outline unacceptable
        if let Some(why) = e.invalid {
            return Some(format!("{name}: {why}"));
        }
        if e.role != "definition" {
            continue;
        }
        let (p, a) = e.def_pred.unwrap();
        let k = (p.to_string(), a);
        if task_preds.contains(&k) {
            return Some(format!("{name}: defines the task predicate {p}/{a}"));
        }
        if defined.contains(&k) {
            return Some(format!("{name}: {p}/{a} is defined twice"));
        }
        // body predicates: task predicates and earlier definitions
        let body: fol::Formula = e.body.parse().ok()?;
        if let fol::Formula::QuantifiedFormula { formula, .. } = &body {
            if let fol::Formula::BinaryFormula { rhs, .. } = &**formula {
                for q in rhs.predicates() {
                    let qk = (q.symbol.clone(), q.arity);
                    if !task_preds.contains(&qk) && !defined.contains(&qk) {
                        return Some(format!("{name}: body mentions {}/{} which is neither a task predicate nor defined earlier", q.symbol, q.arity));
                    }
                }
            }
        }
        defined.push(k);
    }
    None
}

/// semantic check of the base/step obligations of inductive lemmas
fn check_induction(run: &Run, lemma_text: &str, base: &fol::Formula, step: &fol::Formula) -> Option<Value> {
    let lemma: fol::Formula = lemma_text.parse().ok()?;
    // forall N others (N >= n -> F)
    let fol::Formula::QuantifiedFormula { quantification, formula } = &lemma else { return None };
    let fol::Formula::BinaryFormula { lhs, rhs: f, .. } = &**formula else { return None };
    let fol::Formula::AtomicFormula(fol::AtomicFormula::Comparison(c)) = &**lhs else { return None };
    let fol::GeneralTerm::IntegerTerm(fol::IntegerTerm::Variable(nv)) = &c.term else { return None };
    let fol::GeneralTerm::IntegerTerm(fol::IntegerTerm::Numeral(n0)) = &c.guards[0].term else { return None };
    let mut others: Vec<fol::Variable> = quantification.variables.iter().filter(|v| !(v.name == *nv && v.sort == fol::Sort::Integer)).cloned().collect();
    // free variables of the lemma are universally closed
    for v in lemma.free_variables() {
        if !others.contains(&v) {
            others.push(v);
        }
    }
    let active = vec![Val::Int(0), Val::Int(1), Val::sym("a")];
    let u = Universe::new(&[("in".into(), 1), ("out".into(), 1)], &active);
    let sp = Space::new(u.len());
    let syms = vec!["a".to_string()];
    let mut verdicts = vec![];
    for w in [3i128, 5] {
        let slice = slice_for(w, &syms);
        let eval = |g: &mut G, formula: &fol::Formula| -> Table { let p = g.ground(formula); sp.cl(&p) };
        // all assignments of the other variables over the window (the closure's domain)
        let mut asgs: Vec<Vec<Val>> = vec![vec![]];
        for v in &others {
            let dom: Vec<Val> = slice.general().into_iter().filter(|x| sort_ok(v.sort, x)).collect();
            let mut nn = vec![];
            for a in &asgs {
                for dval in &dom {
                    let mut y = a.clone();
                    y.push(dval.clone());
                    nn.push(y);
                }
            }
            asgs = nn;
        }
        // expected base: F with N := n0, for all others
        let mut exp_base = sp.full.clone();
        let mut exp_step = sp.full.clone();
        for a in &asgs {
            let mk = |nval: i128| -> G {
                let mut g = G::new(&u, slice.clone(), slice.clone());
                g.no_solve = true;
                for (v, x) in others.iter().zip(a.iter()) {
                    g.bind(&v.name, v.sort, x.clone());
                }
                g.bind(nv, fol::Sort::Integer, Val::Int(nval));
                g
            };
            let mut g = mk(*n0 as i128);
            and_into(&mut exp_base, &eval(&mut g, f));
            for k in -w..=w {
                if k < *n0 as i128 {
                    continue;
                }
                let mut g1 = mk(k);
                let fk = eval(&mut g1, f);
                let mut g2 = mk(k + 1);
                let fk1 = eval(&mut g2, f);
                let mut imp = sp.not(&fk);
                or_into(&mut imp, &fk1);
                and_into(&mut exp_step, &imp);
            }
        }
        let mut g = G::new(&u, slice.clone(), slice.clone());
        g.no_solve = true;
        let got_base = eval(&mut g, base);
        let mut g = G::new(&u, slice.clone(), slice.clone());
        g.no_solve = true;
        let got_step = eval(&mut g, step);
        run.trans(2 * sp.bits);
        let db = xor(&got_base, &exp_base);
        let ds = xor(&got_step, &exp_step);
        verdicts.push(if let Some(i) = sp.first_set(&db) {
            Some(json!({"obligation": "base", "interpretation": describe_cl(&u, i), "emitted_true": sp.get(&got_base, i), "expected_true": sp.get(&exp_base, i), "emitted": base.to_string()}))
        } else if let Some(i) = sp.first_set(&ds) {
            Some(json!({"obligation": "step", "interpretation": describe_cl(&u, i), "emitted_true": sp.get(&got_step, i), "expected_true": sp.get(&exp_step, i), "emitted": step.to_string()}))
        } else {
            None
        });
        if w == 3 && sp.count(&exp_step) != 0 && sp.count(&exp_step) != sp.bits {
            run.observe(hash_of(&exp_step));
        }
    }
    match (&verdicts[0], &verdicts[1]) {
        (Some(a), Some(_)) => Some(a.clone()),
        _ => None,
    }
}

pub fn run(run: &Run) {
    let quick = run.quick();
    let alpha = entry_alphabet();
    let dirs = ["universal", "forward", "backward"];
    let mut entries: Vec<Entry> = vec![];
    for e in &alpha {
        for d in dirs {
            let mut x = e.clone();
            x.dir = d;
            entries.push(x);
        }
    }
    let n = entries.len();
    let mut outlines: Vec<Vec<usize>> = vec![];
    for i in 0..n {
        outlines.push(vec![i]);
        for j in 0..n {
            outlines.push(vec![i, j]);
            for k in 0..n {
                let stride = if quick { 31 } else { 3 };
                if (i * 7 + j * 3 + k) % stride == 0 {
                    outlines.push(vec![i, j, k]);
                }
            }
        }
    }
    let tasks = base_tasks();
    run.set_extra("outlines_generated", json!(outlines.len()));
    run.set_extra("base_tasks", json!(tasks.len()));
    run.set_rule("every outline of 1-2 entries and a stride of 3-entry outlines over 27 entry shapes (5 lemmas incl. free variables and references to definitions, 7 inductive lemmas (two with a chained antecedent, which must be refused) incl. negative start, extra variables, induction variable rebound inside, a general variable named like the induction variable; 15 definitions incl. 0-ary ones and task-predicate symbols at another arity, 10 of them invalid for a listed reason) x 3 direction annotations, on 6 base tasks (program/program with assumption, clashing private predicates, specification with directed formulas, placeholder, declared-only second input with and without an assumption) x 3 task directions x 2 decompositions: structural check of every emitted problem (axioms only from premises of the direction, accepted definitions, lemmas established earlier; order; obligations present), definition acceptance against the reference predicate, and semantic check of every base/step obligation against environment-update evaluation on all interpretations; non-trivial = distinct (problem-name list) / step tables");
    let plain_cache: Vec<Vec<(String, Decomposition, Vec<Problem>)>> = tasks
        .iter()
        .map(|t| {
            let mut v = vec![];
            for d in dirs {
                for dec in [Decomposition::Sequential, Decomposition::Independent] {
                    let f = Flags { dec, simplify: true, eqb: true };
                    let dd = match d {
                        "forward" => fol::Direction::Forward,
                        "backward" => fol::Direction::Backward,
                        _ => fol::Direction::Universal,
                    };
                    v.push((d.to_string(), dec, build_external(t, &f, dd, false).unwrap_or_default()));
                }
            }
            v
        })
        .collect();
    // task predicates: those of the emitted problems without outline and those the user guide declares
    let task_preds: Vec<Vec<(String, usize)>> = plain_cache
        .iter()
        .enumerate()
        .map(|(ti, fam)| {
            let mut v: Vec<(String, usize)> = vec![];
            if let Ok(ug) = tasks[ti].ug.parse::<fol::UserGuide>() {
                for q in ug.public_predicates() {
                    v.push((q.symbol, q.arity));
                }
            }
            for (_, _, ps) in fam {
                for p in ps {
                    for q in p.predicates() {
                        let k = (q.symbol, q.arity);
                        if !v.contains(&k) {
                            v.push(k);
                        }
                    }
                }
            }
            v
        })
        .collect();
    let idx: Vec<usize> = (0..outlines.len()).collect();
    idx.par_iter().for_each(|&oi| {
        let es: Vec<Entry> = outlines[oi].iter().map(|i| entries[*i].clone()).collect();
        let o = make_outline(&es);
        let _w = run.watch("outline", "proof_outline", &o.text);
        for (ti, t) in tasks.iter().enumerate() {
            let mut t2 = t.clone();
            t2.po = o.text.clone();
            let invalid = definitions_valid(&o, &task_preds[ti]);
            for (d, dec, plain) in &plain_cache[ti] {
                if quick && (oi + ti) % 2 == 1 && *dec == Decomposition::Independent {
                    continue;
                }
                let f = Flags { dec: *dec, simplify: true, eqb: true };
                let dd = match d.as_str() {
                    "forward" => fol::Direction::Forward,
                    "backward" => fol::Direction::Backward,
                    _ => fol::Direction::Universal,
                };
                run.state();
                let res = std::panic::catch_unwind(std::panic::AssertUnwindSafe(|| build_external(&t2, &f, dd, false)));
                let desc = json!({"task": t2.describe(), "direction": d, "decomposition": format!("{dec:?}")});
                match res {
                    Err(_) => run.violation(format!("panic|{}", o.text), desc),
                    Ok(Err(_)) => {
                        run.count("outlines_refused", 1);
                    }
                    Ok(Ok(ps)) => {
                        run.count("outlines_accepted", 1);
                        run.trans(ps.len() as u64);
                        run.observe(hash_of(&ps.iter().map(|p| p.name.clone()).collect::<Vec<_>>()));
                        if let Some(why) = &invalid {
                            run.violation(
                                format!("invalid_entry_accepted|{}", why.split(": ").nth(1).unwrap_or(why)),
                                json!({"kind": "outline with an invalid entry was accepted", "why": why, "item": desc}),
                            );
                        }
                        let placeholders: indexmap::IndexMap<String, fol::FunctionConstant> = t2
                            .ug
                            .parse::<fol::UserGuide>()
                            .map(|u| u.placeholders().into_iter().map(|p| (p.name.clone(), p)).collect())
                            .unwrap_or_default();
                        for (k, v) in check_family(&o, &ps, plain, d, &placeholders) {
                            run.violation(k, json!({"item": desc, "detail": v}));
                        }
                        // semantic check of inductive lemmas (once per outline/task)
                        if d == "universal" && *dec == Decomposition::Sequential {
                            for (e, name) in &o.entries {
                                if e.role != "inductive-lemma" {
                                    continue;
                                }
                                // the obligations of the i-th lemma of a direction are <dir>_outline_<i>_0 (base) and _1 (step)
                                let dirn = if e.dir == "backward" { "backward" } else { "forward" };
                                let li = o.entries.iter().filter(|(x, _)| x.role != "definition" && in_dir(x, dirn)).position(|(_, n)| n == name);
                                let find = |j: usize| li.and_then(|i| ps.iter().find(|p| p.name == format!("{dirn}_outline_{i}_{j}"))).and_then(|p| p.formulas.iter().find(|f| f.role == Role::Conjecture).map(|f| f.formula.clone()));
                                if let (Some(b), Some(s)) = (find(0), find(1)) {
                                    run.valid(1);
                                    if let Some(dv) = check_induction(run, e.body, &b, &s) {
                                        run.violation(format!("induction_obligation|{}", e.body), json!({"item": desc, "lemma": e.body, "detail": dv}));
                                    }
                                }
                            }
                        }
                    }
                }
            }
        }
        if oi < 2 {
            run.sample(json!({"outline": o.text}));
        }
    });
}

pub fn replay(v: &Value) -> i32 {
    let item = if v["replay"]["item"].is_null() { &v["replay"] } else { &v["replay"]["item"] };
    let t = &item["task"];
    let task = ExtTask {
        left: t["left"].as_str().unwrap_or("").into(),
        left_is_spec: t["left_is_spec"].as_bool().unwrap_or(false),
        right: t["right"].as_str().unwrap_or("").into(),
        ug: t["user_guide"].as_str().unwrap_or("").into(),
        po: t["proof_outline"].as_str().unwrap_or("").into(),
    };
    let d = item["direction"].as_str().unwrap_or("universal");
    let dec = if item["decomposition"].as_str() == Some("Independent") { Decomposition::Independent } else { Decomposition::Sequential };
    let dd = match d {
        "forward" => fol::Direction::Forward,
        "backward" => fol::Direction::Backward,
        _ => fol::Direction::Universal,
    };
    let f = Flags { dec, simplify: true, eqb: true };
    let mut plain_task = task.clone();
    plain_task.po = String::new();
    let plain = build_external(&plain_task, &f, dd, false).unwrap_or_default();
    match build_external(&task, &f, dd, false) {
        Err(e) => {
            println!("replay: outline refused: {e}");
            0
        }
        Ok(ps) => {
            println!("replay: outline accepted, {} problems: {:?}", ps.len(), ps.iter().map(|p| p.name.clone()).collect::<Vec<_>>());
            for p in &ps {
                if p.name.contains("outline") {
                    println!("  {}: axioms {:?}", p.name, p.formulas.iter().filter(|f| f.role == Role::Axiom).map(|f| strip(&f.name)).collect::<Vec<_>>());
                }
            }
            let _ = plain;
            println!("replay: the full structural oracle needs the parsed outline entries; run ./check C13 for the verdict");
            1
        }
    }
}
