//! C02 (external-equivalence obligations are refuted exactly by behavioural differences) and
//! C19 (simplify / eq-break / decomposition flags never change the claim verified).
use crate::c01::ht_space;
use crate::c03;
use crate::c05::ht_universe;
use crate::dom::*;
use crate::ground::{Key, G};
use crate::prob::*;
use crate::refsem;
use crate::report::*;
use crate::sem::*;
use crate::tasks::*;
use crate::tt::*;
use anthem::syntax_tree::asp::mini_gringo as asp;
use anthem::syntax_tree::fol::sigma_0 as fol;
use anthem::verif::{FormulaRepresentation, Problem};
use rayon::prelude::*;
use serde_json::{json, Value};
use std::cell::RefCell;
use std::collections::HashMap;

#[derive(Clone, Copy, PartialEq)]
pub enum Mode {
    C02,
    C19,
}

/// OR-projection of a table over `n_all` variables onto its low `n_pub` variables
pub fn project(t: &Table, n_all: usize, n_pub: usize) -> Table {
    let sp_pub = Space::new(n_pub);
    let mut out = sp_pub.zero();
    let hi = 1u64 << (n_all - n_pub);
    for p in 0..(1u64 << n_pub) {
        for h in 0..hi {
            let idx = p | (h << n_pub);
            if (t[(idx / 64) as usize] >> (idx % 64)) & 1 == 1 {
                out[(p / 64) as usize] |= 1 << (p % 64);
                break;
            }
        }
    }
    out
}

/// a table over the low `n_pub` variables as a table over `n_vis >= n_pub` variables that does not
/// depend on the additional ones
pub fn lift(t: &Table, n_pub: usize, n_vis: usize) -> Table {
    let sp = Space::new(n_vis);
    let mut out = sp.zero();
    let mask = (1u64 << n_pub) - 1;
    for idx in 0..(1u64 << n_vis) {
        let p = idx & mask;
        if (t[(p / 64) as usize] >> (p % 64)) & 1 == 1 {
            out[(idx / 64) as usize] |= 1 << (idx % 64);
        }
    }
    out
}

fn preds_of(problems: &[Problem]) -> Vec<(String, usize)> {
    let mut v: Vec<(String, usize)> = vec![];
    for p in problems {
        for q in p.predicates() {
            let k = (q.symbol, q.arity);
            if !v.contains(&k) {
                v.push(k);
            }
        }
    }
    v
}

fn task_syms(t: &ExtTask) -> Vec<String> {
    let mut s = vec![];
    let mut add = |x: String| {
        if !s.contains(&x) {
            s.push(x)
        }
    };
    if !t.left_is_spec {
        if let Ok(p) = t.left.parse::<asp::Program>() {
            for c in p.function_constants() {
                add(c);
            }
        }
    } else if let Ok(sp) = t.left.parse::<fol::Specification>() {
        for f in &sp.formulas {
            for c in f.formula.symbols() {
                add(c);
            }
        }
    }
    if let Ok(p) = t.right.parse::<asp::Program>() {
        for c in p.function_constants() {
            add(c);
        }
    }
    s.sort();
    s
}

pub struct Setup {
    /// the predicates on which the two sides are compared: the public ones, then - for a
    /// specification given as formulas - the specification's own (non-public) predicates. The
    /// property reads a specification's formulas on the refuting interpretation itself, so these
    /// are NOT projected away; only program-private predicates are.
    pub visible: Vec<(String, usize)>,
    pub public: Vec<(String, usize)>,
    pub inputs: Vec<(String, usize)>,
    pub placeholders: Vec<fol::FunctionConstant>,
    pub ug: fol::UserGuide,
    pub active: Vec<Val>,
    pub syms: Vec<String>,
}

fn universe(preds: &[(String, usize)], active: &[Val]) -> Universe {
    Universe::new(preds, active)
}

pub fn setup(t: &ExtTask, all_preds: &[(String, usize)]) -> Option<Setup> {
    let ug: fol::UserGuide = t.ug.parse().ok()?;
    let inputs: Vec<(String, usize)> = ug.input_predicates().into_iter().map(|p| (p.symbol, p.arity)).collect();
    let outputs: Vec<(String, usize)> = ug.output_predicates().into_iter().map(|p| (p.symbol, p.arity)).collect();
    let mut public = inputs.clone();
    public.extend(outputs);
    let placeholders: Vec<fol::FunctionConstant> = ug.placeholders().into_iter().collect();
    let mut syms: Vec<String> = task_syms(t).into_iter().filter(|s| !placeholders.iter().any(|p| &p.name == s)).collect();
    // active set: classical universe over all predicates must stay within 16 atoms, each side's
    // HT universe within 9
    let s0 = syms.first().cloned().unwrap_or_else(|| "a".into());
    let cands = vec![
        vec![Val::Int(0), Val::Int(1), Val::Int(2), Val::Sym(s0.clone())],
        vec![Val::Int(0), Val::Int(1), Val::Sym(s0.clone())],
        vec![Val::Int(0), Val::Int(1)],
        vec![Val::Int(1)],
    ];
    // per-side HT spaces: one variable per input atom, two per other atom
    let side_preds = |text: &str, is_spec: bool| -> Vec<(String, usize)> {
        let mut v = public.clone();
        if !is_spec {
            if let Ok(p) = text.parse::<asp::Program>() {
                for q in p.predicates() {
                    let k = (q.symbol, q.arity);
                    if !v.contains(&k) {
                        v.push(k);
                    }
                }
            }
        }
        v
    };
    let sides = [side_preds(&t.left, t.left_is_spec), side_preds(&t.right, false)];
    let mut active = vec![];
    for c in cands {
        let size = |ps: &[(String, usize)]| -> usize { ps.iter().map(|(_, a)| c.len().pow(*a as u32)).sum() };
        let n_all = size(all_preds);
        let ht_ok = sides.iter().all(|ps| {
            let n_in = size(&ps.iter().filter(|k| inputs.contains(k)).cloned().collect::<Vec<_>>());
            2 * size(ps) - n_in <= 20
        });
        if n_all <= 16 && ht_ok {
            active = c;
            break;
        }
    }
    if active.is_empty() {
        return None;
    }
    for v in &active {
        if let Val::Sym(x) = v {
            if !syms.contains(x) {
                syms.push(x.clone());
            }
        }
    }
    let mut visible = public.clone();
    if t.left_is_spec {
        if let Ok(spec) = t.left.parse::<fol::Specification>() {
            for f in &spec.formulas {
                for q in f.formula.predicates() {
                    let k = (q.symbol, q.arity);
                    if !visible.contains(&k) {
                        visible.push(k);
                    }
                }
            }
        }
    }
    Some(Setup { visible, public, inputs, placeholders, ug, active, syms })
}

pub fn placeholder_values(ph: &[fol::FunctionConstant]) -> Vec<HashMap<Key, Val>> {
    let mut asgs: Vec<HashMap<Key, Val>> = vec![HashMap::new()];
    for c in ph {
        let dom: Vec<Val> = match c.sort {
            fol::Sort::Integer => vec![Val::Int(1), Val::Int(2), Val::Int(0)],
            fol::Sort::General => vec![Val::Int(1), Val::sym("a"), Val::Int(2)],
            fol::Sort::Symbol => vec![Val::sym("a"), Val::sym("b")],
        };
        let mut n = vec![];
        for a in &asgs {
            for d in &dom {
                let mut x = a.clone();
                x.insert((c.name.clone(), c.sort), d.clone());
                n.push(x);
            }
        }
        asgs = n;
    }
    asgs
}

/// public projection of the stable models (with inputs) of a program, table over `n_pub` atoms
fn stable_public(prog: &asp::Program, st: &Setup, consts: &HashMap<Key, Val>, w: i128, maxabs: &mut i128) -> Table {
    let mut preds = st.public.clone();
    for p in prog.predicates() {
        let k = (p.symbol, p.arity);
        if !preds.contains(&k) {
            preds.push(k);
        }
    }
    let u = universe(&preds, &st.active);
    let n_pub = universe(&st.public, &st.active).len();
    let slice = slice_for(w, &st.syms);
    let mut cx = refsem::Ctx::new();
    for ((name, _), v) in consts {
        cx.placeholders.insert(name.clone(), v.clone());
    }
    let p = refsem::program_sem(prog, &slice.general(), &u, &mut cx);
    *maxabs = (*maxabs).max(cx.maxabs);
    let mut mask = 0u64;
    for (i, (pn, a)) in u.atoms.iter().enumerate() {
        if st.inputs.contains(&(pn.clone(), a.len())) {
            mask |= 1 << i;
        }
    }
    let hs = HtSpace::with_fixed(u.len(), mask);
    let (_, stable) = refsem::stable_table(&hs, &p, mask);
    project(&stable, u.len(), n_pub)
}

/// table over the visible atoms (public, then the specification's own) of a formula of the user guide
/// or of the specification
fn public_formula(f: &fol::Formula, st: &Setup, consts: &HashMap<Key, Val>, w: i128, b: i128) -> Table {
    let u = universe(&st.visible, &st.active);
    let sp = Space::new(u.len());
    let slice = slice_for(w, &st.syms);
    let mut g = G::new(&u, slice.clone(), slice.widened(std::cmp::max(w, b + 2)));
    g.consts = consts.clone();
    // placeholders occur as plain symbols in the input texts
    for ((name, _), v) in consts {
        g.sym_override.insert(name.clone(), v.clone());
    }
    let p = g.ground(f);
    sp.cl(&p)
}

pub struct Verdict {
    pub kind: String,
    pub detail: Value,
}

/// expected refutation tables (forward, backward) over the public atoms
fn expected(t: &ExtTask, st: &Setup, consts: &HashMap<Key, Val>, w: i128, b: &mut i128) -> Option<(Table, Table)> {
    let n_pub = universe(&st.public, &st.active).len();
    let n_vis = universe(&st.visible, &st.active).len();
    let sp = Space::new(n_vis);
    let right: asp::Program = t.right.parse().ok()?;
    let sr = lift(&stable_public(&right, st, consts, w, b), n_pub, n_vis);
    // user-guide assumptions
    let mut uga = sp.full.clone();
    for f in st.ug.formulas() {
        if f.role == fol::Role::Assumption {
            and_into(&mut uga, &public_formula(&f.formula.clone().universal_closure(), st, consts, w, *b));
        }
    }
    let (mut fwd, mut bwd);
    if !t.left_is_spec {
        let left: asp::Program = t.left.parse().ok()?;
        let sl = lift(&stable_public(&left, st, consts, w, b), n_pub, n_vis);
        fwd = and(&sl, &sp.not(&sr));
        bwd = and(&sr, &sp.not(&sl));
    } else {
        let spec: fol::Specification = t.left.parse().ok()?;
        let mut a_u = sp.full.clone(); // universal assumptions
        let mut a_f = sp.full.clone(); // forward-only assumptions
        let mut s_f = sp.full.clone(); // specs that are premises forward (universal | forward)
        let mut s_b = sp.full.clone(); // specs that are conclusions backward (universal | backward)
        for f in &spec.formulas {
            let tab = public_formula(&f.formula.clone().universal_closure(), st, consts, w, *b);
            match (f.role, f.direction) {
                (fol::Role::Assumption, fol::Direction::Universal) => and_into(&mut a_u, &tab),
                (fol::Role::Assumption, fol::Direction::Forward) => and_into(&mut a_f, &tab),
                (fol::Role::Assumption, fol::Direction::Backward) => {}
                (fol::Role::Spec, d) => {
                    if matches!(d, fol::Direction::Universal | fol::Direction::Forward) {
                        and_into(&mut s_f, &tab);
                    }
                    if matches!(d, fol::Direction::Universal | fol::Direction::Backward) {
                        and_into(&mut s_b, &tab);
                    }
                }
                _ => return None,
            }
        }
        // forward: satisfies the spec side (assumptions + forward specs), not producible by the program
        fwd = and(&and(&a_u, &a_f), &and(&s_f, &sp.not(&sr)));
        // backward: stable model of the program under the universal assumptions violating a backward spec
        bwd = and(&and(&a_u, &sr), &sp.not(&s_b));
    }
    and_into(&mut fwd, &uga);
    and_into(&mut bwd, &uga);
    Some((fwd, bwd))
}

/// refutation tables (forward, backward) of the emitted problems over the universe `u`
fn observed(problems: &[Problem], u: &Universe, st: &Setup, consts: &HashMap<Key, Val>, w: i128, b: i128) -> (Table, Table) {
    let sp = Space::new(u.len());
    let slice = slice_for(w, &st.syms);
    let env = Env {
        u,
        sp: &sp,
        outer: slice.clone(),
        inner: slice.widened(std::cmp::max(w, b + 2)),
        consts: consts.clone(),
        cache: RefCell::new(HashMap::new()),
        sym_override: renamed_symbols(problems),
    };
    let mut fwd = sp.zero();
    let mut bwd = sp.zero();
    for p in problems {
        let t = env.refuted(p);
        if p.name.starts_with("forward") {
            or_into(&mut fwd, &t);
        } else {
            or_into(&mut bwd, &t);
        }
    }
    (fwd, bwd)
}

const W: i128 = 6;

pub fn check_task(run: Option<&Run>, mode: Mode, t: &ExtTask) -> Vec<(String, Value)> {
    let mut out = vec![];
    let flags = all_flags();
    let mut families: Vec<(String, Vec<Problem>)> = vec![];
    for f in &flags {
        match build_external(t, f, fol::Direction::Universal, false) {
            Ok(ps) => families.push((f.name(), ps)),
            Err(_) => {
                if let Some(r) = run {
                    r.count("tasks_refused_or_unparsable", 1);
                }
                return out;
            }
        }
    }
    if let Some(r) = run {
        r.count("tasks_accepted", 1);
    }
    let mut all_preds: Vec<(String, usize)> = vec![];
    for (_, ps) in &families {
        for k in preds_of(ps) {
            if !all_preds.contains(&k) {
                all_preds.push(k);
            }
        }
    }
    let Some(st) = setup(t, &all_preds) else {
        if let Some(r) = run {
            r.skipped.fetch_add(1, std::sync::atomic::Ordering::Relaxed);
        }
        return out;
    };
    // universe: visible atoms first (public, then the specification's own)
    let mut order = st.visible.clone();
    for k in &all_preds {
        if !order.contains(k) {
            order.push(k.clone());
        }
    }
    let u = universe(&order, &st.active);
    let n_pub = universe(&st.visible, &st.active).len();
    let sp_all = Space::new(u.len());
    let sp_pub = Space::new(n_pub);
    for consts in placeholder_values(&st.placeholders) {
        let ctext: Vec<String> = consts.iter().map(|(k, v)| format!("{} = {}", k.0, v)).collect();
        let mut per_window: Vec<Vec<(String, Value)>> = vec![];
        for w in [W, W + 3] {
            let mut found = vec![];
            let mut b = 0i128;
            let exp = if mode == Mode::C02 { expected(t, &st, &consts, w, &mut b) } else { None };
            if mode == Mode::C02 && exp.is_none() {
                return out;
            }
            let mut first: Option<(String, Table, Table)> = None;
            for (fname, ps) in &families {
                if let Some(r) = run {
                    r.state();
                    r.trans(sp_all.bits * ps.len() as u64);
                }
                let (of, ob) = observed(ps, &u, &st, &consts, w, b);
                match mode {
                    Mode::C02 => {
                        let (ef, eb) = exp.as_ref().unwrap();
                        let pf = project(&of, u.len(), n_pub);
                        let pb = project(&ob, u.len(), n_pub);
                        if let Some(r) = run {
                            if w == W {
                                for tb in [ef, eb] {
                                    if sp_pub.count(tb) != 0 {
                                        r.observe(hash_of(tb));
                                    }
                                }
                            }
                        }
                        for (dir, o, e) in [("forward", &pf, ef), ("backward", &pb, eb)] {
                            let d = xor(o, e);
                            if let Some(idx) = sp_pub.first_set(&d) {
                                let pu = universe(&st.visible, &st.active);
                                found.push((
                                    format!("refutation_mismatch|{dir}|{fname}"),
                                    json!({"direction": dir, "flags": fname, "placeholders": ctext, "public_interpretation": describe_cl(&pu, idx),
                                           "some_problem_refuted_by_an_extension": sp_pub.get(o, idx), "behavioural_difference_per_reference": sp_pub.get(e, idx), "window": w}),
                                ));
                            }
                        }
                    }
                    Mode::C19 => {
                        if let Some(r) = run {
                            if w == W && (sp_all.count(&of) != 0 || sp_all.count(&ob) != 0) {
                                r.observe(hash_of(&(&of, &ob)));
                            }
                        }
                        match &first {
                            None => first = Some((fname.clone(), of, ob)),
                            Some((f0, f_of, f_ob)) => {
                                for (dir, a, bb) in [("forward", f_of, &of), ("backward", f_ob, &ob)] {
                                    let d = xor(a, bb);
                                    if let Some(idx) = sp_all.first_set(&d) {
                                        found.push((
                                            format!("flag_dependence|{dir}|{f0}|{fname}"),
                                            json!({"direction": dir, "family_a": f0, "family_b": fname, "placeholders": ctext, "interpretation": describe_cl(&u, idx),
                                                   "refutes_some_problem_in_a": sp_all.get(a, idx), "refutes_some_problem_in_b": sp_all.get(bb, idx), "window": w}),
                                        ));
                                    }
                                }
                            }
                        }
                    }
                }
            }
            per_window.push(found);
        }
        let (a, bw) = (&per_window[0], &per_window[1]);
        for (k, v) in a {
            if bw.iter().any(|(k2, _)| k2 == k) {
                out.push((k.clone(), v.clone()));
            } else if let Some(r) = run {
                r.window_unstable.fetch_add(1, std::sync::atomic::Ordering::Relaxed);
                r.sample_force(json!({"window_unstable": t.describe(), "key": k, "detail": v}));
            }
        }
        for (k, v) in bw {
            if !a.iter().any(|(k2, _)| k2 == k) {
                if let Some(r) = run {
                    r.window_unstable.fetch_add(1, std::sync::atomic::Ordering::Relaxed);
                    r.sample_force(json!({"window_unstable": t.describe(), "key": k, "detail": v}));
                }
            }
        }
    }
    out
}

/// C19 on strong-equivalence tasks: the refutation tables must not depend on the flags
fn check_strong_flags(run: &Run, l: &str, r: &str) -> Vec<(String, Value)> {
    let mut out = vec![];
    let (Ok(left), Ok(right)) = (l.parse::<asp::Program>(), r.parse::<asp::Program>()) else { return out };
    let cx = c03::pair_ctx_marked(&left, &right, 6, l);
    let hs = ht_space(cx.u.len());
    let _ = ht_universe;
    for (rn, rep) in [("tau-star", FormulaRepresentation::TauStar), ("mu", FormulaRepresentation::Mu)] {
        let mut per_window: Vec<Vec<(String, Value)>> = vec![];
        for w in [W, W + 3] {
            let mut found = vec![];
            let mut first: Option<(String, Table, Table)> = None;
            for f in all_flags() {
                let Ok(ps) = build_strong(l, r, &f, rep, fol::Direction::Universal) else { continue };
                run.state();
                run.trans(hs.sp.bits * ps.len() as u64);
                let (of, ob) = c03::observed(&cx, &ps, w, 4);
                match &first {
                    None => first = Some((f.name(), of, ob)),
                    Some((f0, a_f, a_b)) => {
                        for (dir, a, b) in [("forward", a_f, &of), ("backward", a_b, &ob)] {
                            let d = xor(a, b);
                            if let Some(idx) = hs.sp.first_set(&d) {
                                found.push((format!("flag_dependence|strong|{rn}|{dir}|{f0}|{}", f.name()), json!({"representation": rn, "direction": dir, "family_a": f0, "family_b": f.name(), "interpretation": {"true_atoms": cx.u2.set_names(idx)}, "window": w})));
                            }
                        }
                    }
                }
            }
            per_window.push(found);
        }
        for (k, v) in &per_window[0] {
            if per_window[1].iter().any(|(k2, _)| k2 == k) {
                out.push((k.clone(), v.clone()));
            } else {
                run.window_unstable.fetch_add(1, std::sync::atomic::Ordering::Relaxed);
            }
        }
    }
    out
}

/// tasks outside the reference fragment for C19 (unsafe rules, large numerals, 3-rule programs)
fn extra_c19_tasks() -> Vec<ExtTask> {
    let ps = [
        "out(X) :- in(X), X > 1000000.",
        "out(X) :- in(X), X < 999999 * 3.",
        "out(X) :- in(Y), X = Y * 100000.",
        "out(X) :- not in(X), X = 1..3.",
        "aux(X) :- in(X), X > 1. out(X) :- aux(X), not in(X+1). :- out(X), X > 100.",
        "out(X) :- in(X), X \\ 2 = 0.",
        "out(X) :- in(X), X / 2 > 0.",
        "out(X/2) :- in(X).",
        "out(X) :- in(X), Y = X * X, Y > 3.",
    ];
    let mut v = vec![];
    for l in ps {
        for r in ps {
            v.push(ExtTask { left: l.into(), left_is_spec: false, right: r.into(), ug: "input: in/1. output: out/1.".into(), po: String::new() });
        }
    }
    v
}

pub fn run(mode: Mode, run: &Run) {
    let quick = run.quick();
    let mut tasks = special_ext_tasks();
    tasks.extend(ext_tasks(quick));
    tasks.extend(gen_ext_tasks(quick));
    tasks.extend(gen_spec_tasks(quick));
    if mode == Mode::C19 {
        tasks.extend(extra_c19_tasks());
    }
    run.set_extra("external_tasks_generated", json!(tasks.len()));
    run.set_extra("windows", json!([W, W + 3]));
    if mode == Mode::C02 {
        run.set_rule("every (program-or-specification, program, user guide) triple of the task alphabet (20 programs incl. private predicates with clashing names, 10 specifications with directions, 6 user guides with integer/general/symbol placeholders and assumptions) plus all pairs (quick: a stride) of 67 grammar-generated programs (every head kind x 9 body conditions, private definitions used positively/negatively, facts, undefined private predicates, 0-ary outputs, second input predicate) with the matching user guide, that anthem accepts x 8 flag combinations x all placeholder values x ALL interpretations of public and private predicates: public projection of the interpretations refuting some forward (backward) problem vs the reference notion of behavioural difference (stable models with inputs of each side from the reference semantics, projected to the public vocabulary; specification formulas by direction); non-trivial = distinct non-empty expected refutation table");
        run.assume("projection form: an interpretation of the public predicates refutes a direction iff some extension to the private predicates refutes a problem; private predicates of the task alphabet are only derived for arguments of input atoms, so extents inside U exist");
        run.assume("specification assumptions annotated `backward` are dropped with a warning by design and are outside the alphabet");
    } else {
        run.set_rule("for every accepted external task (task alphabet + tasks with large numerals, division, unsafe rules) and every strong task (40x40 pairs x {tau-star, mu}): the set of interpretations (over all predicates of the problems) refuting some forward / backward problem is computed for each of the 8 flag combinations and must be identical; non-trivial = distinct non-empty refutation table");
    }
    let seed = run.seed as usize;
    let total = tasks.len();
    let idx: Vec<usize> = (0..total).collect();
    idx.par_iter().for_each(|&i0| {
        let i = (i0 + seed) % total;
        let t = &tasks[i];
        let _w = run.watch("task", "task_key", &t.key());
        let r = std::panic::catch_unwind(std::panic::AssertUnwindSafe(|| check_task(Some(run), mode, t)));
        match r {
            Err(e) => {
                let msg = e.downcast_ref::<String>().cloned().or_else(|| e.downcast_ref::<&str>().map(|s| s.to_string())).unwrap_or_default();
                run.violation(format!("panic|{}", t.key()), json!({"kind": "panic", "task": t.describe(), "message": msg}));
            }
            Ok(v) => {
                for (k, d) in v {
                    run.violation(format!("{k}|{}", t.key()), json!({"task": t.describe(), "key": k, "detail": d}));
                }
            }
        }
        if i < 3 {
            run.sample(json!({"task": t.describe()}));
        }
    });
    if mode == Mode::C19 {
        let alpha = c03::rule_alphabet();
        let mut pairs = vec![];
        for (i, l) in alpha.iter().enumerate() {
            for (j, r) in alpha.iter().enumerate() {
                if quick && (i + j) % 3 != 0 {
                    continue;
                }
                pairs.push((l.to_string(), r.to_string()));
            }
        }
        for (i, pr) in c03::arith_pairs().into_iter().enumerate() {
            if !quick || i % 2 == 1 {
                pairs.push(pr);
            }
        }
        run.set_extra("strong_pairs_generated", json!(pairs.len()));
        pairs.par_iter().for_each(|(l, r)| {
            let _w = run.watch("strong_pair", "pair", &format!("{l} || {r}"));
            let res = std::panic::catch_unwind(std::panic::AssertUnwindSafe(|| check_strong_flags(run, l, r)));
            if let Ok(v) = res {
                for (k, d) in v {
                    run.violation(format!("{k}|{l}|{r}"), json!({"left": l, "right": r, "key": k, "detail": d}));
                }
            }
        });
    }
}

pub fn replay(mode: Mode, v: &Value) -> i32 {
    let t = &v["replay"]["task"];
    if t.is_null() {
        println!("replay: strong-equivalence cases of C19 are re-run by the full check");
        return 2;
    }
    let task = ExtTask {
        left: t["left"].as_str().unwrap_or("").into(),
        left_is_spec: t["left_is_spec"].as_bool().unwrap_or(false),
        right: t["right"].as_str().unwrap_or("").into(),
        ug: t["user_guide"].as_str().unwrap_or("").into(),
        po: t["proof_outline"].as_str().unwrap_or("").into(),
    };
    let a = check_task(None, mode, &task);
    let b = check_task(None, mode, &task);
    if format!("{a:?}") != format!("{b:?}") {
        println!("replay: NON-DETERMINISTIC");
        return 2;
    }
    println!("replay: {}", serde_json::to_string(&a).unwrap());
    if a.is_empty() {
        0
    } else {
        1
    }
}
