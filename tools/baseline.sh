#!/bin/bash
# Runs the repository's baseline suite (guard off) in the given tree (default /repo); prints a summary.
DIR="${1:-/repo}"
cd "$DIR" && CARGO_NET_OFFLINE=true cargo test --workspace --no-fail-fast --offline 2>&1 | grep -E "^test result|^test .* FAILED|failed$" | sort | uniq -c
