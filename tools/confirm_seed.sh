#!/bin/bash
# Confirms a seeded change delivered by a sub-agent: suite still passes with it, demo fails with it, passes without.
# usage: confirm_seed.sh <tag>   (worktree /tmp/wt_<tag>, deliverables /tmp/seed_<tag>)
TAG="$1"; WT=/tmp/wt_$TAG; SD=/tmp/seed_$TAG
export CARGO_NET_OFFLINE=true
OUT=$SD/confirm.txt; : > $OUT
cd $WT || exit 2
echo "== diff stat" >> $OUT; git diff --stat >> $OUT
echo "== suite with change" >> $OUT
cargo test --workspace --no-fail-fast --offline 2>&1 | grep -E "^test result|^test .* FAILED" | sort | uniq -c >> $OUT
run_demo() {
  if [ -f $SD/demo.sh ]; then
    bash $SD/demo.sh > $SD/.demo_run.txt 2>&1; echo "demo.sh exit=$?"
  elif [ -f $SD/demo.rs ]; then
    cp $SD/demo.rs $WT/tests/zz_seed_demo.rs
    FEAT=""; grep -qE "anthem::verif|verif::|feature = .verif." $SD/demo.rs && FEAT="--features verif"
    cargo test --offline $FEAT --test zz_seed_demo > $SD/.demo_run.txt 2>&1; echo "demo.rs exit=$? $(grep -E '^test result' $SD/.demo_run.txt | tail -1)"
    rm -f $WT/tests/zz_seed_demo.rs
  else echo "no demo"; fi
}
echo "== demo WITH change" >> $OUT; run_demo >> $OUT
git diff > $SD/patch.confirmed.diff
git apply -R $SD/patch.confirmed.diff
echo "== demo WITHOUT change" >> $OUT; run_demo >> $OUT
git apply $SD/patch.confirmed.diff
echo "== done" >> $OUT
cat $OUT
