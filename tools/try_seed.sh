#!/bin/bash
# Applies a seeded patch to /repo, runs the given checks (quick tier), restores /repo.
# usage: try_seed.sh <patch.diff> <ID> [<ID>...]
PATCH="$1"; shift
cd /repo || exit 2
if [ -n "$(git status --porcelain)" ]; then echo "/repo not clean" >&2; exit 2; fi
git apply "$PATCH" || { echo "patch does not apply" >&2; exit 2; }
# a try must not leave its verdicts behind: evidence/ and replay/ describe the UNCHANGED tree and are committed
SNAP=$(mktemp -d /verif/scratch/snap_XXXXXX)
cp -a /verif/evidence "$SNAP/evidence" 2>/dev/null; cp -a /verif/replay "$SNAP/replay" 2>/dev/null
for id in "$@"; do
  out=$(cd /verif && ./check $id --tier ${TIER:-quick} 2>&1); code=$?
  echo "--- $id exit=$code"
  echo "$out" | grep -E "^\[$id\] tier|^VIOLATION|^KNOWN-FINDING|MACHINERY" | head -6
  if [ $code -eq 1 ]; then
     f=$(echo "$out" | grep -m1 '^VIOLATION' | sed 's/.*replay=//'); python3 - "$f" <<'PY'
import json,sys
a=json.load(open(sys.argv[1])); print('    first:', a['key'][:200]); print('    ', json.dumps(a['replay'])[:400])
PY
  fi
done
git -C /repo checkout -- . ; git -C /repo status --porcelain
# the replay files of the try stay readable under scratch/last_try_replay; evidence/ and replay/ are restored
rm -rf /verif/scratch/last_try_replay; cp -a /verif/replay /verif/scratch/last_try_replay 2>/dev/null
[ -d "$SNAP/evidence" ] && { rm -rf /verif/evidence; mv "$SNAP/evidence" /verif/evidence; }
[ -d "$SNAP/replay" ] && { rm -rf /verif/replay; mv "$SNAP/replay" /verif/replay; }
rm -rf "$SNAP"
