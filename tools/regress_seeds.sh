#!/bin/bash
# Applies every kept seeded change in turn and runs the check(s) of its property; every one must exit 1.
# usage: tools/regress_seeds.sh [seed-id ...]
cd /verif
ids="$@"; [ -z "$ids" ] && ids=$(ls seeded)
for sid in $ids; do
  # the check(s) to run: the seed's own property, unless meta.json names others in "regress_with" (a change
  # that another property's check reports and the own-property check, by its statement, cannot)
  prop=$(python3 -c "import json;m=json.load(open('/verif/seeded/$sid/meta.json'));print(m.get('regress_with') or m['property'])" 2>/dev/null)
  patch=/verif/seeded/$sid/patch.diff
  [ -f /verif/seeded/$sid/patch.rebased.diff ] && patch=/verif/seeded/$sid/patch.rebased.diff
  out=$(tools/try_seed.sh $patch $prop 2>&1 | grep -E "^--- |patch does not apply")
  echo "$sid $out"
done
