#!/usr/bin/env python3
"""keep_seed.py <tag> <seed-id> <property> <needs> <caught_by> <ran>  — stores a confirmed seeded change under /verif/seeded/<seed-id>/"""
import sys, os, shutil, json
tag, sid, prop, needs, caught, ran = sys.argv[1:7]
src = f"/tmp/seed_{tag}"; dst = f"/verif/seeded/{sid}"
os.makedirs(dst, exist_ok=True)
for f in ["patch.diff", "demo.rs", "demo.sh", "notes.md", "confirm.txt", "demo_output.txt"]:
    if os.path.exists(f"{src}/{f}"):
        shutil.copy(f"{src}/{f}", f"{dst}/{f}")
# demo inputs that live in sub-directories (e.g. in/) belong to the demonstration as well
for d in os.listdir(src):
    if os.path.isdir(f"{src}/{d}") and not d.startswith('.'):
        shutil.copytree(f"{src}/{d}", f"{dst}/{d}", dirs_exist_ok=True)
meta = {"property": prop, "origin": "independent sub-agent given only the property text and a scratch worktree",
        "needs_to_manifest": needs, "caught_by": caught, "what_was_run": ran,
        "confirmed": "suite (141 pass, translate_examples fails as on the unchanged tree) with the change; demo fails with / passes without the change (confirm.txt)"}
json.dump(meta, open(f"{dst}/meta.json", "w"), indent=1)
print("kept", dst)
