#!/usr/bin/env python3
"""Regenerates /verif/MANIFEST.json from the table below (keeps it schema-valid)."""
import json, subprocess, os

HOOK_COMMITS = ["70d35fd"]

# id -> (technique, level text, level note, design ref) ; only ids present in CLAIMED are emitted as checks
CHECKS = {
 "C01": ("bounded-exhaustive enumeration of rules x all HT interpretations (bit-parallel truth tables) against a reference semantics of mini-gringo",
         "Every rule of the generated alphabets (all T_1/T_2 terms in every head/body/comparison context, adversarial variable names, 2-rule programs) is translated by the real tau_star(); the grounded formula and the reference semantics' ground instances are compared on every HT interpretation H subset-of T over the atom universe, at two window sizes. Exhaustive within the stated alphabet and slice.",
         "trusted: reference semantics (engine/src/refsem.rs), grounder with skeleton solver (audited on a sub-enumeration), finite slice of the standard domain (window-stability monitored)", "4 C01"),
 "C08": ("bounded-exhaustive enumeration of rules x all HT interpretations; differential truth-table comparison natural/mu vs tau*",
         "For every rule of C01's alphabets, natural() (where it accepts) and mu() are grounded and compared with the tau* formula of the same rule on every HT interpretation, at two windows; mu must return one formula per rule and never panic.",
         "trusted: grounder/solver (audited), finite slice; tau* itself is anchored by C01", "4 C08"),
}
CLAIMED = ["C01", "C08"]

NOT_YET = "engine for this property not built yet in this session (see DESIGN.md section 9)"

def main():
    props = [json.loads(l) for l in open("/verif/properties.jsonl")]
    checks = []
    na = []
    for p in props:
        pid = p["id"]
        if pid in CLAIMED:
            tech, text, note, ref = CHECKS[pid]
            checks.append({
                "property_id": pid,
                "quick_cmd": f"./check {pid} --tier quick",
                "thorough_cmd": f"./check {pid} --tier thorough",
                "evidence_file": f"/verif/evidence/{pid}.json",
                "replay_cmd_template": f"./check {pid} --replay {{path}}",
                "engine": "vengine",
                "level_claimed": {"category": "model_checking", "text": text, "design_ref": f"DESIGN.md section {ref}"},
                "level_note": note,
                "technique": tech,
            })
        else:
            na.append({"property_id": pid, "reason": NA.get(pid, NOT_YET)})
    m = {
        "version": 1,
        "setup_cmd": "cd /verif/engine && CARGO_NET_OFFLINE=true cargo build --release --offline",
        "hooks": {
            "guard": "cargo feature `verif` of the anthem crate",
            "enable": "the engine crate depends on anthem by path=/repo with features=[\"verif\"]; every check runs `cargo build --release --offline` first, so it links /repo's current working tree",
            "baseline_off_cmd": "cd /repo && cargo test --workspace --no-fail-fast --offline",
            "source_commits": HOOK_COMMITS,
            "add_only": True,
        },
        "engines": [
            {"name": "vengine", "path": "/verif/engine", "serves_properties": CLAIMED,
             "kind_free_text": "Rust explorer linking the real anthem crate: bounded-exhaustive input enumeration x exhaustive interpretation enumeration (bit-parallel truth tables) against reference semantics"},
        ],
        "checks": checks,
        "notes": "exit 0 held / 1 VIOLATION / 2 machinery failure; known findings in /verif/KNOWN_FINDINGS.txt",
        "not_applicable": na,
    }
    json.dump(m, open("/verif/MANIFEST.json", "w"), indent=1)
    print("claimed:", len(checks), "not claimed:", len(na))

NA = {}
if __name__ == "__main__":
    main()
