#!/usr/bin/env python3
"""Regenerates /verif/MANIFEST.json from the table below (keeps it schema-valid)."""
import json, subprocess, os

HOOK_COMMITS = ["70d35fd"]

# id -> (technique, level text, level note, design ref) ; only ids present in CLAIMED are emitted as checks
CHECKS = {
 "C01": ("bounded-exhaustive enumeration of rules x all HT interpretations (bit-parallel truth tables) against a reference semantics of mini-gringo",
         "Every rule of the generated alphabets (all T_1/T_2 terms in every head/body/comparison context, adversarial variable names, body atoms of arity 1-3, 2-rule programs) is translated by the real tau_star(); the grounded formula and the reference semantics' ground instances are compared on every HT interpretation H subset-of T over the atom universe, at two window sizes. Exhaustive within the stated alphabet and slice.",
         "trusted: reference semantics (engine/src/refsem.rs), grounder with skeleton solver (audited on a sub-enumeration), finite slice of the standard domain (window-stability monitored)", "4 C01"),
 "C03": ("bounded-exhaustive enumeration of program pairs x flag combinations x ALL classical interpretations of the h-/t-copies, against HT truth tables of the reference semantics",
         "For every ordered pair of programs of the alphabet and all 16 (representation, decomposition, simplify, eq-break) combinations the real StrongEquivalenceTask::decompose() is run; the set of interpretations (incl. H not inside T) refuting some forward/backward problem must equal the set of pairs H subset-of T satisfying one program and not the other under the reference semantics.",
         "trusted: reference semantics, grounder, finite slice; h/t copies identified by the documented prefixing", "4 C03"),
 "C04": ("bounded-exhaustive enumeration of tight programs x input sets x all classical interpretations; stable models computed from HT truth tables; supported-model oracle for hand-built theories",
         "Every 1-3 rule program of a 40-rule alphabet that the real is_tight() accepts, with every subset of non-head predicates as inputs: models of completion(tau*(P), inputs) vs stable models with inputs from the reference semantics, plus one completed definition per non-input predicate; every 1-2 formula theory over 30 implication shapes: listed non-completability reasons imply refusal, accepted theories agree with supported models.",
         "trusted: reference semantics and stable-model computation by enumeration, grounder, finite slice; theories whose heads use sorted variables are outside the oracle (counted)", "4 C04"),
 "C05": ("bounded-exhaustive enumeration of formulas x assignments x all pairs H subset-of T; truth-table comparison of HT satisfaction with classical satisfaction of gamma(F)",
         "Every formula of the formula families with every assignment of its free variables: the HT truth table of F equals the classical truth table of the real gamma(F) over the h-/t-copies restricted to H subset-of T; injectivity of the prefixing checked on a stress set of predicate names.",
         "trusted: grounder, finite slice (gamma preserves binders, so both sides use identical quantifier candidates)", "4 C05"),
 "C06": ("bounded-exhaustive enumeration of formulas; render through Problem's Display, read back with an independent TFF reader, compare truth tables on all interpretations",
         "Every comparison chain of length 1-4 over mixed-sort operands in 14 connective/quantifier contexts, boundary numerals, placeholders of all sorts and connective nestings: the rendered TFF text is parsed by a reader written from the TPTP grammar and must have the same truth table as the source formula for all placeholder values.",
         "trusted: the TFF reader's grammar choices (stated in evidence), grounder, finite slice", "4 C06"),
 "C07": ("bounded-exhaustive enumeration of formulas x portfolios x strategies x assignments x all interpretations; truth-table equivalence (HT resp. classical)",
         "Every formula of families A-K (incl. capture pressure, fresh-name pressure, mixed-sort binder blocks; thorough: complete connective depth 2/3) under each of the 3 portfolios and 3 strategies (composed exactly as procedures.rs does): output HT-equivalent (classically equivalent for classic) to the input under every free-variable assignment and interpretation, no new free variables; a violation is attributed to the first non-equivalent single rewrite step.",
         "trusted: grounder with skeleton solver, finite slice with two-window stability", "4 C07"),
 "C08": ("bounded-exhaustive enumeration of rules x all HT interpretations; differential truth-table comparison natural/mu vs tau*",
         "For every rule of C01's alphabets, natural() (where it accepts) and mu() are grounded and compared with the tau* formula of the same rule on every HT interpretation, at two windows; mu must return one formula per rule and never panic.",
         "trusted: grounder/solver (audited), finite slice; tau* itself is anchored by C01", "4 C08"),
 "C09": ("exhaustive enumeration of tasks x identifier-stress renamings x flag combinations; every emitted problem parsed and type-checked by an independent TFF reader",
         "All external tasks of the task alphabet and a stride of strong tasks, instantiated with the identifier stress renamings and hand-picked clash tasks, under all 8 flag combinations: every problem text must parse, declare every used symbol exactly once at the type it is used with, bind and type every variable, have unique formula names and exactly one conjecture.",
         "trusted: the TFF reader (symbols identified by name and arity); three identifier-shape findings are listed in KNOWN_FINDINGS.txt", "4 C09"),
 "C12": ("exhaustive evaluation of the preamble axioms over integer windows and of every generated ordering / transition axiom of every problem of the task enumeration",
         "Preamble axioms are read by the TFF reader and evaluated in the standard interpretation for all assignments over two windows; for every problem of C09's enumeration every symbol_order axiom must be true under the denotation map, the axioms must link all constants (those of Problem::symbols() united with every f__symbolic__(c) read off the emitted text, placeholders excluded), and every transition axiom must hold exactly on interpretations with H subset-of T.",
         "trusted: TFF reader, standard order implemented in engine/src/dom.rs; integer quantifiers over windows as the property itself stipulates", "4 C12"),
 "C17": ("bounded-exhaustive enumeration of (formula, variable, term) x assignments x all classical interpretations; truth-table comparison with environment update",
         "Every (formula, variable, sort-compatible term) of the binder-heavy families (atoms, equations, single and chained comparisons): the truth table of F.substitute(x,t) equals that of F under the assignment updated with the term's value, and the free-variable equation holds.",
         "trusted: grounder (both sides have the same binder structure, so windows play no role)", "4 C17"),
}

CHECKS.update({
 "C02": ("bounded-exhaustive enumeration of external tasks x flags x placeholder values x ALL interpretations of public and private predicates; refutation tables projected to the visible vocabulary (public predicates plus a specification's own; program-private predicates are projected away) vs stable models with inputs of the reference semantics",
         "Every accepted (program-or-specification, program, user guide) triple of the task alphabet under all 8 flag combinations and all placeholder values: the public projection of the interpretations refuting some forward/backward problem of the real ExternalEquivalenceTask::decompose() equals the reference notion of behavioural difference (stable models with inputs computed from HT truth tables, specification formulas by direction).",
         "trusted: reference semantics and stable-model computation, grounder, finite slice; projection form (an extension to the program-private predicates exists; a specification's own predicates are read on the interpretation itself, as the property states)", "4 C02"),
 "C11": ("exhaustive enumeration of small programs (dependency graphs), of rules (regularity) and of task/user-guide shapes (enforcement) against reference predicates",
         "is_tight() and has_private_recursion are compared with reference graph algorithms on every 1-2 rule program (and 3-rule / long-cycle families) over an abstract alphabet with all private sets; is_regular() with the manual's definition on C01's rules; for 17x(17+8)x12 task shapes x bypass flag, decompose() may return problems only if all listed conditions hold.",
         "trusted: reference predicates in engine/src/refsem.rs and c11.rs, written from the manual's definitions; enforcement is one-directional as the property is worded", "4 C11"),
 "C13": ("exhaustive enumeration of proof outlines (<= 3 entries over 27 entry shapes x 3 directions) x base tasks x directions x decompositions; structural oracle on every emitted problem + truth-table check of induction obligations",
         "For every outline the emitted problem sequence is checked: axioms of each outline problem come only from the direction's premises (taken from the run without outline), accepted definitions and lemmas established earlier; final problems follow; invalid definitions must be refused; base/step obligations equal the environment-update semantics of F[n/N] and N >= n & F -> F[N+1/N] on all interpretations.",
         "trusted: the reference validity predicate for definitions, name-based identification of formulas (all inputs are named), grounder for the induction check", "4 C13"),
 "C14": ("bounded-exhaustive enumeration of syntax trees (via fully parenthesised text) and of token strings; parse-print-parse comparison",
         "Every term of T_0..T_2 (+ depth-3 subset), every rule/program of C01's alphabets and every token string of <= 4 (thorough 7) tokens over the term and rule alphabets: whenever anthem accepts a text, printing the tree and parsing again yields the identical tree and printing is a fixpoint.",
         "trusted: nothing beyond anthem's own parser and printer (differential)", "4 C14"),
 "C15": ("bounded-exhaustive enumeration of formulas, terms, annotated formulas, user-guide entries and token strings; parse-print-parse comparison; outputs of translations/simplifications re-parsed",
         "Every formula of families A-G, term shapes, annotated formulas with every role x direction x name, user-guide entries, token strings of <= 4 (thorough 6) tokens, and the output of tau-star/natural/mu/gamma/completion and of the portfolios: printing and re-parsing yields the identical tree.",
         "trusted: nothing beyond anthem's parser and printer; two known findings listed in KNOWN_FINDINGS.txt", "4 C15"),
 "C16": ("bounded-exhaustive enumeration of token strings, of single/double token edits of all example files and of the semantic explorers' formula/program alphabets, each pushed through every later stage under catch_unwind, with a watchdog that turns a call that does not return into a verdict",
         "Every token string up to the length bound for the five parsers and every single-token edit (and nearby double deletion) of the example files: no panic in parsing or in any later stage (translations, simplification, formatting, analyses, task assembly), no input slower than 5 s; the CLI layer (cli/C16.sh) adds special files and exit-status checks.",
         "trusted: catch_unwind + panic hook, watchdog limit 30 s (quick) / 120 s (thorough) per input; claim limited to the stated edit/length bounds, not all byte strings; known findings (numeral/arity overflow) listed", "4 C16"),
 "C19": ("bounded-exhaustive enumeration of tasks x all interpretations; differential comparison of refutation tables across the 8 flag combinations",
         "For every accepted external task (incl. large numerals, division, undefined private predicates) and every strong task (x tau-star/mu) the set of interpretations over all predicates of the problems that refute some forward/backward problem is computed per flag combination and must be identical.",
         "trusted: grounder, finite slice with two-window stability; no reference semantics needed", "4 C19"),
})


CHECKS.update({
 "C10": ("stateless exploration of prover-completion schedules and outcome assignments on the real binary (controlled scheduler via a parking stand-in prover) + loom exploration of all interleavings (bounded preemptions) of the real prove_all source",
         "Layer 2 runs the real `anthem verify` with a stand-in vampire that parks until released; every assignment of outcomes (Theorem, other SZS statuses, unknown word, no status line, non-UTF8 noise, non-zero exit, death by signal) to the problems and every release order for 1..8 prover instances is executed and judged (Success iff all Theorem, each problem handed over once and byte-identical to its saved file); an external task with a proof outline (problem names with two indices) is explored with single-failure assignments and release orders of at most 1 (thorough 2) deviations; provers that arrive after all problems were released are answered at once and counted; plus the missing-executable configuration. Layer 1 compiles the repository's own prove_all text against loom and explores all schedules up to the preemption bound.",
         "trusted: the stand-in protocol (identifies problems by their stdin), loom port of threadpool 1.8.1 and the mpsc shim (validated against std on all operation sequences and against 200 free-running runs of the real implementation)", "4 C10"),
 "C18": ("exhaustive pass-by-pass re-execution of the fixpoint iteration with cycle detection over the formula families (model checking); every command of the corpus re-run under an enumerated list of harness-chosen hash seeds (getrandom interposed) plus one free-running process, outputs compared byte-wise",
         "Termination/idempotence: for every formula of families A-H (incl. deep chains needing one pass per level) x 3 portfolios the iteration is re-run pass by pass with cycle detection, the real apply_fixpoint must return the same formula and be idempotent. Determinism: every command on every corpus input is run once per hash seed of a fixed list (LD_PRELOAD shim cli/seedshim.c makes std's RandomState keys a function of VERIF_HASH_SEED, so a failing seed fails every time) and once free-running; all outputs must be byte-identical.",
         "trusted: structural equality of formulas; the hash-seed dimension of the determinism half is a fixed enumerated seed list (3 quick / 11 thorough), not all keys, which is stated in the evidence", "4 C18"),
 "C20": ("exhaustive enumeration of argument permutations x direct/directory placements on the real CLI against a reference role rule",
         "For each file set all permutations of the argument list and all ways of giving files directly or through up to two directories are run with --no-proof-search --save-problems; the emitted problem files must be byte-identical to those of the canonical call computed by the reference rule; swapping the programs of a strong task, and of an external task over two programs, must exchange forward and backward; where several .spec/.ug/.po files are given any of them is an admissible choice (the property does not say which).",
         "trusted: the reference role rule in cli/c20_roles.py, written from the property statement", "4 C20"),
})

CLAIMED = ["C01", "C02", "C03", "C04", "C05", "C06", "C07", "C08", "C09", "C10", "C11", "C12", "C13", "C14", "C15", "C16", "C17", "C18", "C19", "C20"]

NOT_YET = "engine for this property not built yet in this session (see DESIGN.md section 9)"

def main():
    props = [json.loads(l) for l in open("/verif/properties.jsonl")]
    checks = []
    na = []
    for p in props:
        pid = p["id"]
        if pid in CLAIMED:
            tech, text, note, ref = CHECKS[pid]
            checks.append({
                "property_id": pid,
                "quick_cmd": f"./check {pid} --tier quick",
                "thorough_cmd": f"./check {pid} --tier thorough",
                "evidence_file": f"/verif/evidence/{pid}.json",
                "replay_cmd_template": f"./check {pid} --replay {{path}}",
                "engine": "vengine",
                "level_claimed": {"category": "model_checking", "text": text, "design_ref": f"DESIGN.md section {ref}"},
                "level_note": note,
                "technique": tech,
            })
        else:
            na.append({"property_id": pid, "reason": NA.get(pid, NOT_YET)})
    m = {
        "version": 1,
        "setup_cmd": "cd /verif/engine && CARGO_NET_OFFLINE=true cargo build --release --offline && cd /verif/sched && CARGO_NET_OFFLINE=true cargo build --release --offline && CARGO_NET_OFFLINE=true cargo build --release --offline --manifest-path /repo/Cargo.toml --target-dir /verif/target-repo",
        "hooks": {
            "guard": "cargo feature `verif` of the anthem crate",
            "enable": "the engine crate depends on anthem by path=/repo with features=[\"verif\"]; every check runs `cargo build --release --offline` first, so it links /repo's current working tree",
            "baseline_off_cmd": "cd /repo && cargo test --workspace --no-fail-fast --offline",
            "source_commits": HOOK_COMMITS,
            "add_only": True,
        },
        "engines": [
            {"name": "vsched", "path": "/verif/sched", "serves_properties": ["C10"], "kind_free_text": "loom harness around a build-time instrumented copy of /repo/src/verifying/prover/mod.rs"},
            {"name": "cli", "path": "/verif/cli", "serves_properties": ["C10", "C11", "C16", "C18", "C20"], "kind_free_text": "python drivers exploring the real anthem binary (controlled prover scheduler, argument permutations, special files, repeated fresh processes)"},
            {"name": "vengine", "path": "/verif/engine", "serves_properties": CLAIMED,
             "kind_free_text": "Rust explorer linking the real anthem crate: bounded-exhaustive input enumeration x exhaustive interpretation enumeration (bit-parallel truth tables) against reference semantics"},
        ],
        "checks": checks,
        "notes": "exit 0 held / 1 VIOLATION / 2 machinery failure; known findings in /verif/KNOWN_FINDINGS.txt",
        "not_applicable": na,
    }
    json.dump(m, open("/verif/MANIFEST.json", "w"), indent=1)
    print("claimed:", len(checks), "not claimed:", len(na))

NA = {}
if __name__ == "__main__":
    main()
