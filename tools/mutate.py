#!/usr/bin/env python3
"""Mutation analysis of the checks: mass-produced single-site changes to potassco/anthem.

For every site of a small set of syntactic operators in the files the properties are anchored in:
apply the change in a scratch worktree (a "lane" under /tmp/mut, never /repo), run the repository's
own suite, and - only if the suite still passes as on the unchanged tree - run the quick checks that
are mapped to the file, from a lane-private copy of /verif/engine that depends on the lane's
worktree and writes its evidence to the lane (VERIF_OUT). A mutant is
  suite     : killed by the repository's tests (not a realistic change in the sense of the brief)
  nocompile : does not build
  caught    : some mapped check exits 1
  survived  : suite passes and every mapped check exits 0  -> triage: equivalent change or blind spot
  machinery : a check exited 2 (to be repaired in the machinery)
Results go to /verif/mutation/results.jsonl (one line per mutant); `summary` prints the table.

usage: mutate.py list                      # enumerate mutants (id, file:line, operator)
       mutate.py run [--lanes 4] [--only REGEX] [--max-per-file N] [--resume]
       mutate.py summary
       mutate.py clean                     # remove the lanes
"""
import json, os, re, shutil, subprocess, sys, time, hashlib
from concurrent.futures import ThreadPoolExecutor

REPO = "/repo"
BASE = "/tmp/mut"
OUT = "/verif/mutation"
ENV = dict(os.environ, CARGO_NET_OFFLINE="true")

# file -> checks able to observe a change in it (in-process explorers only; quick tier)
FILES = {
    "src/translating/formula_representation/tau_star.rs": ["C01", "C08", "C04", "C03"],
    "src/translating/formula_representation/natural.rs": ["C08", "C11"],
    "src/translating/formula_representation/mu.rs": ["C08"],
    "src/translating/classical_reduction/gamma.rs": ["C05", "C03", "C12"],
    "src/translating/classical_reduction/completion.rs": ["C04", "C02"],
    "src/simplifying/fol/sigma_0/classic.rs": ["C07", "C18", "C19"],
    "src/simplifying/fol/sigma_0/intuitionistic.rs": ["C07", "C18", "C19", "C02"],
    "src/simplifying/fol/sigma_0/ht.rs": ["C07", "C18"],
    "src/breaking/fol/sigma_0/ht.rs": ["C02", "C19", "C03"],
    "src/formatting/fol/sigma_0/tptp.rs": ["C06", "C09"],
    "src/formatting/fol/sigma_0/default.rs": ["C15"],
    "src/formatting/asp/mini_gringo/default.rs": ["C14"],
    "src/formatting/mod.rs": ["C14", "C15", "C06"],
    "src/verifying/problem/mod.rs": ["C09", "C12", "C16", "C03"],
    "src/verifying/task/external_equivalence.rs": ["C02", "C11", "C13", "C19", "C09", "C12"],
    "src/verifying/task/strong_equivalence.rs": ["C03", "C12", "C19"],
    "src/verifying/outline/mod.rs": ["C13", "C16"],
    "src/analyzing/tightness.rs": ["C11", "C04"],
    "src/analyzing/private_recursion.rs": ["C11"],
    "src/analyzing/regularity.rs": ["C11", "C08"],
    "src/syntax_tree/fol/sigma_0.rs": ["C17", "C07", "C09", "C12", "C13", "C02", "C08", "C06", "C19"],
    "src/syntax_tree/asp/mini_gringo.rs": ["C01", "C11", "C14", "C08"],
    "src/convenience/apply/mod.rs": ["C18", "C07"],
    "src/convenience/compose/mod.rs": ["C07", "C18"],
    "src/convenience/unbox/fol/sigma_0.rs": ["C07", "C05"],
    "src/parsing/asp/mini_gringo/pest.rs": ["C14", "C16", "C01"],
    "src/parsing/fol/sigma_0/pest.rs": ["C15", "C16", "C07"],
}

# files whose behaviour only the command-line layers can observe -> python drivers run on the lane's binary
FILES_CLI = {
    "src/command_line/files.rs": ["C20", "C11cli"],
    "src/command_line/procedures.rs": ["C10", "C20", "C18cli", "C16cli", "C11cli"],
    "src/command_line/arguments.rs": ["C20", "C10", "C18cli"],
    "src/verifying/prover/vampire.rs": ["C10"],
    "src/verifying/prover/mod.rs": ["C10"],
}
CLI_CMDS = {
    "C20": ["python3", "/verif/cli/c20_roles.py", "--tier", "quick"],
    "C10": ["python3", "/verif/cli/c10_sched.py", "--tier", "quick"],
    "C18cli": ["python3", "/verif/cli/c18_determinism.py", "--tier", "quick"],
    "C16cli": ["python3", "/verif/cli/special.py", "C16", "--tier", "quick"],
    "C11cli": ["python3", "/verif/cli/special.py", "C11", "--tier", "quick"],
}
FILES.update(FILES_CLI)

ALL_CHECKS = ["C05", "C14", "C15", "C04", "C07", "C18", "C06", "C09", "C12", "C11", "C13", "C02", "C19", "C03", "C16", "C17", "C01", "C08"]

SWAPS = [
    (r"\.any\(", ".all("), (r"\.all\(", ".any("),
    (r" && ", " || "), (r" \|\| ", " && "),
    (r" == ", " != "), (r" != ", " == "),
    (r" <= ", " < "), (r" >= ", " > "), (r" < (?![A-Za-z_:&'(\[]*>)", " <= "), (r"(?<![-=]) > ", " >= "),
    (r" \+ 1\b", " + 0"), (r" - 1\b", " - 0"), (r"\b0\.\.", "1.."), (r"\b1\.\.", "0.."),
    (r"\bif !", "if "), (r"\b!self\.", "self."), (r"\(!", "("), (r" !([a-z_]+)\.contains", r" \1.contains"), (r" !([a-z_]+)\.is_empty", r" \1.is_empty"),
    (r"\btrue\b", "false"), (r"\bfalse\b", "true"),
    (r"\.first\(\)", ".last()"), (r"\.last\(\)", ".first()"), (r"\.rev\(\)", ""),
    (r"Quantifier::Forall\b", "Quantifier::Exists"), (r"Quantifier::Exists\b", "Quantifier::Forall"),
    (r"BinaryConnective::Conjunction\b", "BinaryConnective::Disjunction"), (r"BinaryConnective::Disjunction\b", "BinaryConnective::Conjunction"),
    (r"BinaryConnective::Implication\b", "BinaryConnective::ReverseImplication"), (r"BinaryConnective::ReverseImplication\b", "BinaryConnective::Implication"),
    (r"BinaryConnective::Equivalence\b", "BinaryConnective::Implication"),
    (r"Relation::LessEqual\b", "Relation::Less"), (r"Relation::GreaterEqual\b", "Relation::Greater"), (r"Relation::Equal\b", "Relation::NotEqual"), (r"Relation::NotEqual\b", "Relation::Equal"),
    (r"Relation::Less\b", "Relation::LessEqual"), (r"Relation::Greater\b", "Relation::GreaterEqual"),
    (r"Sort::Integer\b", "Sort::General"), (r"Sort::General\b", "Sort::Integer"), (r"Sort::Symbol\b", "Sort::General"),
    (r"BinaryOperator::Add\b", "BinaryOperator::Subtract"), (r"BinaryOperator::Subtract\b", "BinaryOperator::Add"), (r"BinaryOperator::Multiply\b", "BinaryOperator::Add"),
    (r"BinaryOperator::Divide\b", "BinaryOperator::Modulo"), (r"BinaryOperator::Modulo\b", "BinaryOperator::Divide"),
    (r"Direction::Forward\b", "Direction::Backward"), (r"Direction::Backward\b", "Direction::Forward"),
    (r"Role::Axiom\b", "Role::Conjecture"), (r"Role::Conjecture\b", "Role::Axiom"),
    (r"Sign::Negation\b", "Sign::DoubleNegation"), (r"Sign::DoubleNegation\b", "Sign::Negation"), (r"Sign::NoSign\b", "Sign::Negation"),
    (r"\blhs\b", "rhs"), (r"\brhs\b", "lhs"),
]


def code_region(lines):
    """line indexes that are production code: every `#[cfg(test)]` item is skipped by brace matching"""
    out = []
    i = 0
    n = len(lines)
    while i < n:
        l = lines[i]
        if re.match(r"\s*#\[cfg\(test\)\]", l):
            depth = 0
            started = False
            j = i + 1
            while j < n:
                for ch in strip_strings(lines[j]).split("//")[0]:
                    if ch == "{":
                        depth += 1
                        started = True
                    elif ch == "}":
                        depth -= 1
                if started and depth <= 0:
                    break
                if not started and lines[j].rstrip().endswith(";"):
                    break
                j += 1
            i = j + 1
            continue
        s = l.strip()
        # block comments: lines from "/*" to "*/" are not code
        if "/*" in s and "*/" not in s.split("/*", 1)[1]:
            while i < n and "*/" not in lines[i].split("/*", 1)[-1 if "/*" in lines[i] else 0]:
                i += 1
                if i < n and "*/" in lines[i]:
                    break
            i += 1
            continue
        if s and not s.startswith("//") and not s.startswith("*") and not s.startswith("#[") and not s.startswith("use ") and not s.startswith("pub use "):
            out.append(i)
        i += 1
    return out


def strip_strings(line):
    """mask string literals so operators do not fire inside messages"""
    return re.sub(r'"(?:[^"\\]|\\.)*"', lambda m: '"' + "_" * (len(m.group(0)) - 2) + '"', line)


def mutants():
    ms = []
    for f in FILES:
        path = os.path.join(REPO, f)
        if not os.path.exists(path):
            continue
        lines = open(path).read().split("\n")
        for i in code_region(lines):
            masked = strip_strings(lines[i])
            if "//" in masked:
                masked = masked[: masked.index("//")]
            for pat, rep in SWAPS:
                for m in re.finditer(pat, masked):
                    new = lines[i][: m.start()] + re.sub(pat, rep, lines[i][m.start(): m.end()], count=1) + lines[i][m.end():]
                    if new == lines[i]:
                        continue
                    mid = hashlib.sha1(f"{f}:{i}:{m.start()}:{pat}".encode()).hexdigest()[:10]
                    ms.append({"id": mid, "file": f, "line": i + 1, "col": m.start(), "op": f"{pat} -> {rep}", "old": lines[i].strip(), "new": new.strip(), "new_line": new})
    return ms


def sh(cmd, cwd=None, env=None, timeout=None):
    try:
        r = subprocess.run(cmd, cwd=cwd, env=env or ENV, stdout=subprocess.PIPE, stderr=subprocess.STDOUT, timeout=timeout)
        return r.returncode, r.stdout.decode(errors="replace")
    except subprocess.TimeoutExpired as e:
        return 124, (e.stdout or b"").decode(errors="replace")


def setup_lane(k):
    lane = f"{BASE}/lane_{k}"
    repo = f"{lane}/repo"
    if not os.path.exists(repo):
        os.makedirs(lane, exist_ok=True)
        sh(["git", "-C", REPO, "worktree", "add", "--detach", repo, "HEAD"])
    sh(["git", "-C", repo, "checkout", "--", "."])
    eng = f"{lane}/engine"
    shutil.rmtree(eng, ignore_errors=True)
    shutil.copytree("/verif/engine", eng, ignore=shutil.ignore_patterns("target"))
    ct = open(f"{eng}/Cargo.toml").read().replace('path = "/repo"', f'path = "{repo}"')
    open(f"{eng}/Cargo.toml", "w").write(ct)
    os.makedirs(f"{eng}/.cargo", exist_ok=True)
    open(f"{eng}/.cargo/config.toml", "w").write(f'[net]\noffline = true\n[build]\ntarget-dir = "{lane}/target-engine"\n')
    os.makedirs(f"{lane}/out", exist_ok=True)
    return lane


def suite(repo):
    code, out = sh(["cargo", "test", "--workspace", "--no-fail-fast", "--offline"], cwd=repo, timeout=900)
    if "error: could not compile" in out or re.search(r"^error(\[E\d+\])?:", out, re.M):
        if "test result:" not in out:
            return "nocompile", out[-600:]
    failed = sorted(set(re.findall(r"^test (\S+) \.\.\. FAILED", out, re.M)))
    passed = sum(int(x) for x in re.findall(r"test result: \w+\. (\d+) passed", out))
    if code == 124:
        return "suite", "suite timed out"
    if failed == ["translate::tau_star::translate_examples"] and passed == 141:
        return "pass", ""
    if not failed and "test result:" not in out:
        return "nocompile", out[-600:]
    return "suite", ",".join(failed)[:300] + f" passed={passed}"


def run_mutant(k, m, threads):
    lane = f"{BASE}/lane_{k}"
    repo = f"{lane}/repo"
    path = os.path.join(repo, m["file"])
    orig = open(os.path.join(REPO, m["file"])).read()
    lines = orig.split("\n")
    lines[m["line"] - 1] = m["new_line"]
    t0 = time.time()
    res = {"id": m["id"], "file": m["file"], "line": m["line"], "op": m["op"], "old": m["old"], "new": m["new"]}
    try:
        open(path, "w").write("\n".join(lines))
        verdict, detail = suite(repo)
        if verdict != "pass":
            res.update(status=verdict, detail=detail)
            return res
        env = dict(ENV, VERIF_OUT=f"{lane}/out", RAYON_NUM_THREADS=str(threads), VERIF_HANG_LIMIT="60")
        if any(c not in CLI_CMDS for c in FILES[m["file"]]) or m.get("all_checks"):
            code, out = sh(["cargo", "build", "--release", "--offline"], cwd=f"{lane}/engine", env=env, timeout=900)
            if code != 0:
                res.update(status="nocompile", detail="engine: " + out[-400:])
                return res
        ran = []
        mapped = FILES[m["file"]]
        todo = mapped + [c for c in ALL_CHECKS if c not in mapped] if m.get("all_checks") else mapped
        if m.get("all_checks"):
            res["all_checks"] = True
        for cid in todo:
            if cid in CLI_CMDS:
                cenv = dict(env, VERIF_REPO=repo, VERIF_TARGET_REPO=f"{lane}/target-repo", VERIF_SCRATCH=f"{lane}/scratch", VERIF_NO_MERGE="1", VERIF_SKIP_LOOM="1")
                code, out = sh(CLI_CMDS[cid], env=cenv, timeout=1200)
            else:
                code, out = sh([f"{lane}/target-engine/release/vcheck", cid, "--tier", "quick"], env=env, timeout=900)
            ran.append((cid, code))
            if code == 1:
                first = ""
                mm = re.search(r"VIOLATION property=\S+ replay=(\S+)", out)
                if mm:
                    try:
                        first = json.load(open(mm.group(1)))["key"][:160]
                    except Exception:
                        pass
                res.update(status="caught", by=cid, key=first, ran=ran)
                return res
            if code != 0:
                res.update(status="machinery", by=cid, detail=out[-400:], ran=ran)
                return res
        res.update(status="survived", ran=ran)
        return res
    finally:
        open(path, "w").write(orig)
        res["seconds"] = round(time.time() - t0, 1)


def main():
    cmd = sys.argv[1] if len(sys.argv) > 1 else "summary"
    args = sys.argv[2:]
    def opt(name, default=None):
        return args[args.index(name) + 1] if name in args else default
    if cmd == "list":
        ms = mutants()
        for m in ms:
            print(m["id"], f'{m["file"]}:{m["line"]}', m["op"], "|", m["old"][:80])
        print(len(ms), "mutants", file=sys.stderr)
    elif cmd == "run":
        lanes = int(opt("--lanes", "4"))
        only = opt("--only")
        maxper = int(opt("--max-per-file", "0"))
        ms = mutants()
        if only:
            ms = [m for m in ms if re.search(only, m["file"]) or re.search(only, m["id"])]
        if maxper:
            by = {}
            for m in ms:
                by.setdefault(m["file"], []).append(m)
            ms = []
            for f, l in by.items():
                step = max(1, len(l) // maxper)
                ms.extend(l[::step][:maxper])
        os.makedirs(OUT, exist_ok=True)
        done = set()
        if "--resume" in args and os.path.exists(f"{OUT}/results.jsonl"):
            for l in open(f"{OUT}/results.jsonl"):
                done.add(json.loads(l)["id"])
        ms = [m for m in ms if m["id"] not in done]
        if "--survivors-all-checks" in args:
            # second pass: every mutant that survived its mapped checks is run against ALL in-process
            # checks, to tell a gap of the file->check mapping from a gap of the checks
            surv = set()
            for l in open(f"{OUT}/results.jsonl"):
                r = json.loads(l)
                if r["status"] == "survived" and not r.get("all_checks"):
                    surv.add(r["id"])
                elif r["id"] in surv:
                    surv.discard(r["id"])
            ms = [dict(m, all_checks=True) for m in mutants() if m["id"] in surv]
        if "--rerun-void" in args:
            # verdicts produced by a defect of the harness itself (the known C16 parser panic was not
            # recognised in a lane because its key carried the lane's checkout path) are run again
            latest = {}
            for l in open(f"{OUT}/results.jsonl"):
                r = json.loads(l)
                latest[r["id"]] = r
            void = {i for i, r in latest.items() if r.get("by") == "C16" and "ParseI" in (r.get("key") or "")}
            ms = [dict(m, all_checks=True) for m in mutants() if m["id"] in void]
        print(f"{len(ms)} mutants to run on {lanes} lanes", flush=True)
        for k in range(lanes):
            setup_lane(k)
        threads = max(2, 16 // lanes)
        import queue
        q = queue.Queue()
        for m in ms:
            q.put(m)
        lock = __import__("threading").Lock()
        def worker(k):
            while True:
                try:
                    m = q.get_nowait()
                except queue.Empty:
                    return
                r = run_mutant(k, m, threads)
                with lock:
                    with open(f"{OUT}/results.jsonl", "a") as fh:
                        fh.write(json.dumps(r) + "\n")
                    print(f'[{k}] {r["status"]:9} {r["file"]}:{r["line"]} {r["op"]} {r.get("by","")} {r["seconds"]}s', flush=True)
        with ThreadPoolExecutor(max_workers=lanes) as pool:
            list(pool.map(worker, range(lanes)))
    elif cmd == "selftest":
        # a lane must be neutral: on the UNMUTATED tree every check has to exit 0 there, otherwise every
        # mutant would look "caught" for a reason that has nothing to do with it
        lane = setup_lane(0)
        repo = f"{lane}/repo"
        env = dict(ENV, VERIF_OUT=f"{lane}/out", RAYON_NUM_THREADS="16", VERIF_HANG_LIMIT="60")
        code, out = sh(["cargo", "build", "--release", "--offline"], cwd=f"{lane}/engine", env=env, timeout=1800)
        print("engine build", code, flush=True)
        bad = 0
        for cid in ALL_CHECKS + list(CLI_CMDS):
            if cid in CLI_CMDS:
                cenv = dict(env, VERIF_REPO=repo, VERIF_TARGET_REPO=f"{lane}/target-repo", VERIF_SCRATCH=f"{lane}/scratch", VERIF_NO_MERGE="1", VERIF_SKIP_LOOM="1")
                code, out = sh(CLI_CMDS[cid], env=cenv, timeout=1800)
            else:
                code, out = sh([f"{lane}/target-engine/release/vcheck", cid, "--tier", "quick"], env=env, timeout=1800)
            nviol = len(re.findall(r"^VIOLATION", out, re.M))
            print(f"selftest {cid:7} exit={code} violations={nviol}", flush=True)
            if code != 0:
                bad += 1
                print(out[-600:])
        print("SELFTEST", "OK" if bad == 0 else f"FAILED ({bad} checks not neutral in a lane)")
        sys.exit(0 if bad == 0 else 1)
    elif cmd == "summary":
        rows = [json.loads(l) for l in open(f"{OUT}/results.jsonl")]
        latest = {}
        for r in rows:
            latest[r["id"]] = r
        rows = list(latest.values())
        by = {}
        for r in rows:
            by.setdefault(r["file"], {}).setdefault(r["status"], 0)
            by[r["file"]][r["status"]] += 1
        rows = [r for r in rows if r["status"] != "notamutant"]
        by = {}
        for r in rows:
            by.setdefault(r["file"], {}).setdefault(r["status"], 0)
            by[r["file"]][r["status"]] += 1
        keys = ["nocompile", "suite", "caught", "survived", "machinery"]
        print(f'{"file":60} ' + " ".join(f"{k:>9}" for k in keys))
        tot = {k: 0 for k in keys}
        for f in sorted(by):
            print(f"{f:60} " + " ".join(f"{by[f].get(k,0):9d}" for k in keys))
            for k in keys:
                tot[k] += by[f].get(k, 0)
        print(f'{"total":60} ' + " ".join(f"{tot[k]:9d}" for k in keys))
        live = tot["caught"] + tot["survived"]
        if live:
            print(f"suite-passing mutants: {live}; caught by the checks: {tot['caught']} ({100.0*tot['caught']/live:.1f}%)")
        if "--survivors" in args:
            for r in rows:
                if r["status"] in ("survived", "machinery"):
                    print(r["status"], r["id"], f'{r["file"]}:{r["line"]}', r["op"], "|", r["old"][:100], "=>", r["new"][:100])
    elif cmd == "clean":
        for d in sorted(os.listdir(BASE)) if os.path.exists(BASE) else []:
            repo = f"{BASE}/{d}/repo"
            if os.path.exists(repo):
                sh(["git", "-C", REPO, "worktree", "remove", "--force", repo])
        shutil.rmtree(BASE, ignore_errors=True)
        sh(["git", "-C", REPO, "worktree", "prune"])


if __name__ == "__main__":
    main()
