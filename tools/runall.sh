#!/bin/bash
cd /verif
for id in C01 C02 C03 C04 C05 C06 C07 C08 C09 C10 C11 C12 C13 C14 C15 C16 C17 C18 C19 C20; do
  s=$(date +%s); ./check $id --tier ${1:-quick} > /tmp/out_$id.txt 2>&1; rc=$?; e=$(date +%s)
  echo "$id exit=$rc $((e-s))s $(grep -c '^VIOLATION' /tmp/out_$id.txt) violations $(grep -c '^KNOWN-FINDING' /tmp/out_$id.txt) known"
done
