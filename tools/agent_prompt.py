#!/usr/bin/env python3
"""Prints the prompt given to an independent mutation sub-agent for property <id> (nothing from /verif but the property text)."""
import json, sys
pid = sys.argv[1]
variant = sys.argv[2] if len(sys.argv) > 2 else ""
p = [json.loads(l) for l in open('/verif/properties.jsonl') if json.loads(l)['id'] == pid][0]
wt = f"/tmp/wt_{pid}{variant}"
out = f"/tmp/seed_{pid}{variant}"
import os
_avoid = ""
if variant and os.path.exists('/verif/tools/avoid.json'):
    a = json.load(open('/verif/tools/avoid.json')).get(pid)
    if a:
        _avoid = f"\n\nOther people have already tried the following change(s) for this property, so they are taken - choose a DIFFERENT mechanism in a different function or file: {a}."
print(f"""You are helping to evaluate a verification effort for the Rust project potassco/anthem (a translator from mini-gringo answer set programs to first-order theories, with simplifiers, TPTP output and prover-driven equivalence checking). You have your own scratch git worktree of the repository at {wt} . Work ONLY inside {wt} and {out} ; never read or modify /repo or /verif. The sandbox is offline: use `cargo ... --offline` (CARGO_NET_OFFLINE=true). Build output goes to {wt}/target by default, which is fine.

Here is a semantic property that anthem is supposed to satisfy:

TITLE: {p['title']}
STATEMENT: {p['statement']}
QUANTIFIED OVER: {p['quantifier']['text']}

Your task: make ONE realistic change to the anthem source code in {wt} (the kind of mistake a maintainer could plausibly make in a refactoring or a 'small improvement': a few lines, in one or two places) that BREAKS this property, while
  (a) the crate still compiles, and
  (b) the repository's existing test suite still passes exactly as before: run `cd {wt} && cargo test --workspace --no-fail-fast --offline 2>&1 | tail -40` before and after your change; on the unchanged tree 141 tests pass and exactly one test (`translate_examples` in tests/ui) fails; that must remain the outcome after your change (no other test may start failing).
The change must need something SPECIFIC to manifest — a particular unusual input shape, a particular combination of options, a multi-step sequence, a particular schedule, or two cooperating sites that each look fine alone — not something that every ordinary use would expose at once. Prefer changes in the code that implements the mechanism behind the property. Do NOT use `git stash` (the stash is shared between all worktrees of the repository and other people use it): to test without your change, save `git diff > patch.diff` and use `git apply -R patch.diff` / `git apply patch.diff`. Do not add new cargo features, cfg flags or dependencies; do not edit existing tests.

Deliver, in {out}/ :
  1. patch.diff — `git -C {wt} diff` of your change (source files only).
  2. a demonstration: either a new Rust integration test file (e.g. {out}/demo.rs, which you ran by temporarily copying it to {wt}/tests/ and then removed again from the worktree) or a small shell script {out}/demo.sh that builds/runs the anthem binary from {wt} on concrete inputs; it must FAIL (non-zero exit / failing test) with your change applied and PASS without it. Actually run it both ways and record the outputs in {out}/demo_output.txt .
  3. notes.md — which files/lines you changed, why the property breaks, what specific input/condition is needed to manifest it, and the exact commands you ran (including the test-suite result with the change applied).
Leave the worktree with your change applied (uncommitted) and no other stray files in it. In your final message, summarise the change in 5-10 lines.""" + _avoid)
