#!/usr/bin/env python3
"""C10 layer 2: the real `anthem verify` under a controlled prover-completion scheduler.

A stand-in `vampire` (first in PATH) records its stdin, parks until the controller releases
it, then prints the planned answer and exits with the planned code. The controller explores,
depth-first, EVERY choice of which parked prover finishes next, for EVERY assignment of
outcomes to problems, for several numbers of prover instances."""
import os, sys, time, json, subprocess, itertools, shutil, glob
from concurrent.futures import ThreadPoolExecutor
sys.path.insert(0, os.path.dirname(__file__))
from common import *

OUTCOMES = {
    "Theorem": (b"% SZS status Theorem for stdin\n", 0),
    "CounterSatisfiable": (b"% SZS status CounterSatisfiable for stdin\n", 0),
    "ContradictoryAxioms": (b"% SZS status ContradictoryAxioms for stdin\n", 0),
    "Timeout": (b"% SZS status Timeout for stdin\n", 0),
    "MemoryOut": (b"% SZS status MemoryOut for stdin\n", 0),
    "GaveUp": (b"% SZS status GaveUp for stdin\n", 0),
    "Error": (b"% SZS status Error for stdin\n", 0),
    "UnknownWord": (b"% SZS status Satisfiable for stdin\n", 0),
    # words that are not SZS status values but close to 'Theorem' (case, suffix). Not in the alphabet: an output
    # that contains the phrase 'SZS status Theorem for x' inside another sentence before its real status line -
    # anthem takes the first match and reports success; the property does not define what makes a line THE status
    # line, so that output is not judged (observed on the unchanged tree, recorded in DESIGN 10.13)
    "LowercaseTheorem": (b"% SZS status theorem for stdin\n", 0),
    "UppercaseTheorem": (b"% SZS status THEOREM for stdin\n", 0),
    "TheoremSuffix": (b"% SZS status TheoremX for stdin\n", 0),
    "NoStatusLine": (b"% Termination reason: Unknown\n", 0),
    "NonUtf8Noise": (b"\xff\xfe\xfa garbage \x80\n", 0),
    "Crash": (b"", 3),
    "KilledBySignal": (b"", "SEGV"),
}
QUICK_OUTCOMES = ["Theorem", "CounterSatisfiable", "Timeout", "UnknownWord", "NoStatusLine", "NonUtf8Noise", "Crash", "KilledBySignal"]
NEAR_MISS_OUTCOMES = ["Theorem", "LowercaseTheorem", "UppercaseTheorem", "TheoremSuffix"]

STANDIN = r"""#!/bin/sh
d="$C10_DIR"
id=$$
cat > "$d/stdin.$id.tmp"
mv "$d/stdin.$id.tmp" "$d/stdin.$id"
: > "$d/arrived.$id"
n=0
while [ ! -f "$d/release.$id" ]; do
  sleep 0.005
  n=$((n+1))
  if [ $n -gt 6000 ]; then exit 9; fi
done
cat "$d/out.$id"
code="$(cat "$d/release.$id")"
if [ "$code" = "SEGV" ]; then kill -SEGV $$; sleep 1; fi
exit "$code"
"""

TASKS = {
    1: ("p :- q.", "p :- q, q."),
    2: ("p :- q. r :- s.", "p :- q, q. r :- s, s."),
    3: ("p :- q. r :- s. t :- u.", "p :- q, q. r :- s, s. t :- u, u."),
}

# an external-equivalence task with a proof outline in which an inductive lemma (two obligations) is
# followed by further lemmas: the only kind of task whose problem names carry two indices
EXT_TASK = {
    "a.lp": "out(X) :- in(X), X >= 0.\n",
    "b.lp": "out(X) :- in(X), X > -1.\n",
    "u.ug": "input: in/1. output: out/1.\n",
    "o.po": "inductive-lemma(forward)[il]: forall N$i (N$i >= 0 -> (in(N$i) -> out(N$i))).\n"
            "lemma(forward)[l1]: forall X (out(X) -> in(X)).\n"
            "inductive-lemma(backward)[ib]: forall N$i (N$i >= 0 -> (in(N$i) -> out(N$i))).\n"
            "lemma(backward)[l2]: forall X (out(X) -> in(X)).\n",
}

def one_run(anthem, base, k, n, outcomes, prefix, decomposition, ext=False):
    """Runs anthem once following the choice prefix (then always choice 0). Returns
    (observation dict, list of numbers of enabled choices at each release point)."""
    d = scratch("c10_")
    try:
        if ext:
            for fn, txt in EXT_TASK.items(): open(f"{d}/{fn}", "w").write(txt)
        else:
            left, right = TASKS[k]
            open(f"{d}/a.lp", "w").write(left + "\n"); open(f"{d}/b.lp", "w").write(right + "\n")
        os.mkdir(f"{d}/out"); os.mkdir(f"{d}/bin"); os.mkdir(f"{d}/ctl")
        sp = f"{d}/bin/vampire"
        open(sp, "w").write(STANDIN); os.chmod(sp, 0o755)
        env = dict(os.environ, PATH=f"{d}/bin:/usr/bin:/bin", C10_DIR=f"{d}/ctl")
        args = [anthem, "verify", "--equivalence", "strong", "--direction", "forward", "--decomposition", decomposition,
                "--no-timing", "-n", str(n), "--save-problems", f"{d}/out", f"{d}/a.lp", f"{d}/b.lp"]
        if ext:
            args = [anthem, "verify", "--equivalence", "external", "--decomposition", decomposition, "--no-timing", "-n", str(n),
                    "--save-problems", f"{d}/out", f"{d}/a.lp", f"{d}/b.lp", f"{d}/u.ug", f"{d}/o.po"]
        proc = subprocess.Popen(args, env=env, stdout=subprocess.PIPE, stderr=subprocess.PIPE)
        released = {}      # id -> problem name
        choices = []
        files = None
        t_last = time.time()
        hang = False
        while len(released) < k:
            # wait until min(n, remaining) stand-ins are parked
            want = min(n, k - len(released))
            deadline = time.time() + 15
            parked = []
            while True:
                parked = sorted(int(p.rsplit(".", 1)[1]) for p in glob.glob(f"{d}/ctl/arrived.*") if int(p.rsplit(".", 1)[1]) not in released)
                if len(parked) >= want: break
                if proc.poll() is not None or time.time() > deadline: break
                time.sleep(0.003)
            if len(parked) < want:
                if not parked: break   # anthem ended or stalled without parking all provers
            if n < k - len(released):
                # the property does not bound how many provers run at once; an implementation that starts
                # more than the requested n parks more of them. Let the set settle so that the choice
                # points do not depend on timing, and explore over whatever is parked.
                t_set = time.time() + 0.04
                while time.time() < t_set:
                    now = sorted(int(p.rsplit(".", 1)[1]) for p in glob.glob(f"{d}/ctl/arrived.*") if int(p.rsplit(".", 1)[1]) not in released)
                    if len(now) > len(parked):
                        parked = now; t_set = time.time() + 0.04
                    time.sleep(0.004)
            if files is None:
                files = {os.path.basename(p)[:-2]: open(p, "rb").read() for p in sorted(glob.glob(f"{d}/out/*.p"))}
            # identify parked provers by their stdin
            named = []
            for pid in parked:
                data = open(f"{d}/ctl/stdin.{pid}", "rb").read()
                name = next((nm for nm, txt in files.items() if txt == data), None)
                named.append((name if name is not None else f"?{pid}", pid, data))
            named.sort(key=lambda x: x[0])
            ci = len(choices)
            pick = prefix[ci] if ci < len(prefix) else 0
            if pick >= len(named):
                return {"machinery": f"replay divergence: choice {pick} of {len(named)} at point {ci}"}, choices
            choices.append(len(named))
            name, pid, data = named[pick]
            idx = sorted(files.keys()).index(name) if name in files else None
            oname = outcomes[idx] if idx is not None else "Theorem"
            out, code = OUTCOMES[oname]
            open(f"{d}/ctl/out.{pid}", "wb").write(out)
            open(f"{d}/ctl/release.{pid}.tmp", "w").write(str(code)); os.rename(f"{d}/ctl/release.{pid}.tmp", f"{d}/ctl/release.{pid}")
            released[pid] = (name, data)
            t_last = time.time()
        # all k problems were released; anthem must now finish on its own. A prover process that shows up
        # now is an additional run (e.g. a retry): it is answered at once with its problem's outcome and
        # counted, so that such an implementation is judged in bounded time instead of parking forever.
        late = 0
        t_end = time.time() + 10
        while proc.poll() is None and time.time() < t_end:
            for pth in glob.glob(f"{d}/ctl/arrived.*"):
                pid = int(pth.rsplit(".", 1)[1])
                if pid in released or os.path.exists(f"{d}/ctl/release.{pid}"): continue
                data = open(f"{d}/ctl/stdin.{pid}", "rb").read() if os.path.exists(f"{d}/ctl/stdin.{pid}") else b""
                name = next((nm for nm, txt in (files or {}).items() if txt == data), None)
                idx = sorted(files.keys()).index(name) if files and name in files else None
                out, code = OUTCOMES[outcomes[idx] if idx is not None else "Theorem"]
                open(f"{d}/ctl/out.{pid}", "wb").write(out)
                open(f"{d}/ctl/release.{pid}.tmp", "w").write(str(code)); os.rename(f"{d}/ctl/release.{pid}.tmp", f"{d}/ctl/release.{pid}")
                late += 1; t_end = time.time() + 10
            time.sleep(0.005)
        try:
            so, se = proc.communicate(timeout=1)
        except subprocess.TimeoutExpired:
            proc.kill(); so, se = proc.communicate(); hang = True
        if files is None:
            files = {os.path.basename(p)[:-2]: open(p, "rb").read() for p in sorted(glob.glob(f"{d}/out/*.p"))}
        # leftover provers that were started but never released (should not exist)
        extra = [p for p in glob.glob(f"{d}/ctl/arrived.*") if int(p.rsplit(".", 1)[1]) not in released]
        assert late <= len(extra)
        obs = {"stdout": so.decode(errors="replace"), "stderr": se.decode(errors="replace")[-400:], "exit": proc.returncode, "hang": hang,
               "handed": sorted(nm for nm, _ in released.values()), "files": sorted(files.keys()),
               "byte_identical": all(files.get(nm) == data for nm, data in released.values()), "extra_provers": len(extra),
               "prover_runs": len(released)}
        return obs, choices
    finally:
        # release anything still parked so no stray process lingers
        for p in glob.glob(f"{d}/ctl/arrived.*"):
            pid = p.rsplit(".", 1)[1]
            if not os.path.exists(f"{d}/ctl/release.{pid}"):
                open(f"{d}/ctl/out.{pid}", "wb").write(b""); open(f"{d}/ctl/release.{pid}", "w").write("0")
        time.sleep(0.02)
        shutil.rmtree(d, ignore_errors=True)

def judge(obs, k, outcomes):
    """Returns a list of (key, description)."""
    bad = []
    if "machinery" in obs: return [("MACHINERY", obs["machinery"])]
    so = obs["stdout"]
    all_thm = all(o == "Theorem" for o in outcomes)
    succ = "> Success!" in so; fail = "> Failure!" in so
    if obs["hang"]: bad.append(("hang", "anthem did not terminate after all provers were released"))
    if obs["exit"] != 0: bad.append((f"exit_status_{obs['exit']}", "anthem exited with a non-zero status"))
    if succ == fail: bad.append(("no_verdict" if not succ else "two_verdicts", "stdout has neither/both of Success and Failure"))
    elif succ != all_thm:
        bad.append(("success_reported_wrongly" if succ else "failure_reported_wrongly", f"outcomes {outcomes} but stdout says {'Success' if succ else 'Failure'}"))
    if obs["handed"] != obs["files"]:
        bad.append(("problems_not_handed_exactly_once", f"handed to provers: {obs['handed']}; saved files: {obs['files']}"))
    if len(set(obs["files"])) != k: bad.append(("problem_count", f"{len(obs['files'])} problem files for k={k}"))
    if not obs["byte_identical"]: bad.append(("stdin_differs_from_saved_file", "a prover's stdin is not byte-identical to the saved problem"))
    if obs["extra_provers"]: bad.append(("extra_prover_runs", f"{obs['extra_provers']} additional prover processes were started"))
    blocks = so.count("> Proving ") - so.count("...\n")  # '> Proving X...' headers vs result lines
    results = sum(1 for l in so.splitlines() if l.startswith("> Proving ") and " ended " in l)
    if results != k: bad.append(("status_block_count", f"{results} result blocks for {k} problems"))
    return bad

STOP = {"set": False, "confirmed": 0}

def explore(run, anthem, k, n, outcome_names, decomposition, pool):
    """DFS over completion orders for every outcome assignment."""
    jobs = []
    for outcomes in itertools.product(outcome_names, repeat=k):
        jobs.append(outcomes)
    def choices_prefix(prefix, choices, i, alt):
        # follow `prefix` (padded with default 0) up to point i, then take `alt`
        p = list(prefix) + [0] * (i - len(prefix))
        return p[:i] + [alt]
    def task(outcomes):
        results = []
        stack = [[]]
        seen_orders = 0
        while stack:
            if STOP["set"]:
                break
            prefix = stack.pop()
            obs, choices = one_run(anthem, None, k, n, outcomes, prefix, decomposition)
            seen_orders += 1
            results.append((prefix, obs, choices))
            for i in range(len(prefix), len(choices)):
                for alt in range(1, choices[i]):
                    stack.append(choices_prefix(prefix, choices, i, alt))
        return outcomes, results
    for outcomes, results in pool.map(task, jobs):
        for prefix, obs, choices in results:
            run.states += 1
            run.transitions += max(1, len(choices))
            verdicts = judge(obs, k, list(outcomes))
            run.observe((tuple(o == "Theorem" for o in outcomes), "Success" if "> Success!" in obs.get("stdout", "") else "Failure", tuple(choices)))
            for key, desc in verdicts:
                if key == "MACHINERY":
                    run.machinery.append(desc); continue
                # replay twice before reporting
                again = [judge(one_run(anthem, None, k, n, outcomes, prefix, decomposition)[0], k, list(outcomes)) for _ in range(2)]
                if all(any(k2 == key for k2, _ in a) for a in again):
                    STOP["confirmed"] += 1
                    if STOP["confirmed"] >= 12 and not STOP["set"]:
                        STOP["set"] = True
                        run.exhaustive = False
                        run.assumptions.append("exploration stopped after 12 confirmed counterexamples; the remaining outcome assignments / release orders were not run")
                    run.violation(key, {"k": k, "instances": n, "decomposition": decomposition, "outcomes": list(outcomes), "schedule_choices": prefix, "what": desc,
                                        "stdout_tail": obs.get("stdout", "")[-600:], "stderr_tail": obs.get("stderr", "")})
                else:
                    # a symptom that does not reproduce under the same schedule is reported, not judged
                    run.count("unreproducible_observations")
                    run.sample({"unreproducible_observation": key, "k": k, "instances": n, "outcomes": list(outcomes), "schedule_choices": prefix})
            run.count(f"runs_k{k}_n{n}")

def outline_task(run, anthem, tier, pool):
    """The external task with a proof outline: first discover the number of prover runs, then every
    single-failure assignment x every release order with at most D deviations from the default order
    (D = 1 quick, 2 thorough) for n in {1, 2}. Deviation-bounded, because k is about 9 here."""
    obs, _ = one_run(anthem, None, 99, 1, ["Theorem"] * 99, [], "sequential", ext=True)
    if "machinery" in obs:
        run.machinery.append("outline task: " + obs["machinery"]); return
    k = obs["prover_runs"]
    run.extra["outline_task_prover_runs"] = k
    run.states += 1; run.transitions += 1
    if k < 5:
        run.machinery.append(f"outline task: only {k} prover runs observed (expected an outline with two inductive lemmas and two lemmas)"); return
    if len(obs["files"]) != k or sorted(set(obs["handed"])) != sorted(obs["handed"]) or obs["handed"] != obs["files"] or not obs["byte_identical"]:
        run.violation("outline_problems_not_distinct_or_not_saved", {"what": "every problem must be handed over under a distinct name and byte-identical to its saved file",
                      "prover_runs": k, "saved_files": obs["files"], "handed": obs["handed"], "byte_identical": obs["byte_identical"]})
        return
    D = 1 if tier == "quick" else 2
    run.extra["outline_task_deviation_bound"] = D
    assignments = [tuple(["Theorem"] * k)] + [tuple("Timeout" if j == i else "Theorem" for j in range(k)) for i in range(k)]
    def task(job):
        n, outcomes = job
        results = []
        stack = [[]]
        while stack:
            if STOP["set"]: break
            prefix = stack.pop()
            o, choices = one_run(anthem, None, k, n, list(outcomes), prefix, "sequential", ext=True)
            results.append((prefix, o, choices))
            used = sum(1 for c in prefix if c != 0)
            if used >= D: continue
            for i in range(len(prefix), len(choices)):
                for alt in range(1, choices[i]):
                    p = list(prefix) + [0] * (i - len(prefix))
                    stack.append(p[:i] + [alt])
        return job, results
    jobs = [(n, a) for n in (1, 2) for a in assignments]
    for (n, outcomes), results in pool.map(task, jobs):
        for prefix, o, choices in results:
            run.states += 1; run.transitions += max(1, len(choices))
            run.count("runs_outline_task")
            run.observe(("outline", tuple(x == "Theorem" for x in outcomes), "Success" if "> Success!" in o.get("stdout", "") else "Failure", tuple(choices)))
            for key, desc in judge(o, k, list(outcomes)):
                if key == "MACHINERY":
                    run.machinery.append(desc); continue
                again = [judge(one_run(anthem, None, k, n, list(outcomes), prefix, "sequential", ext=True)[0], k, list(outcomes)) for _ in range(2)]
                if all(any(k2 == key for k2, _ in a) for a in again):
                    STOP["confirmed"] += 1
                    run.violation(key + "|outline_task", {"task": "external equivalence with proof outline", "k": k, "instances": n, "outcomes": list(outcomes), "schedule_choices": prefix, "what": desc,
                                                          "stdout_tail": o.get("stdout", "")[-500:]})
                    if STOP["confirmed"] >= 12 and not STOP["set"]:
                        STOP["set"] = True; run.exhaustive = False
                else:
                    run.count("unreproducible_observations")

def missing_executable(run, anthem):
    d = scratch("c10m_")
    try:
        open(f"{d}/a.lp", "w").write("p :- q.\n"); open(f"{d}/b.lp", "w").write("p :- q, q.\n")
        os.mkdir(f"{d}/empty")
        for n in (1, 2):
            r = subprocess.run([anthem, "verify", "--equivalence", "strong", "--no-timing", "-n", str(n), f"{d}/a.lp", f"{d}/b.lp"],
                               env=dict(os.environ, PATH=f"{d}/empty"), stdout=subprocess.PIPE, stderr=subprocess.PIPE, timeout=30)
            run.states += 1; run.transitions += 1
            so = r.stdout.decode(errors="replace")
            if "> Success!" in so or "> Failure!" not in so or r.returncode != 0:
                run.violation("missing_executable_not_failure", {"instances": n, "exit": r.returncode, "stdout_tail": so[-400:]})
            run.observe(("missing", n, "> Failure!" in so))
    finally:
        shutil.rmtree(d, ignore_errors=True)

def loom_layer(run, tier):
    """Layer 1: loom exploration of the real text of Prover::prove_all (instrumented copy)."""
    if os.environ.get("VERIF_SKIP_LOOM"):
        # only the mutation lanes set this: the loom harness instruments /repo's sources, not a lane's
        return
    env = dict(os.environ, CARGO_NET_OFFLINE="true")
    r = subprocess.run(["cargo", "build", "--release", "--offline"], cwd="/verif/sched", env=env, stdout=subprocess.PIPE, stderr=subprocess.STDOUT)
    if r.returncode != 0:
        run.machinery.append("building the loom harness failed (instrumentation anchors?): " + r.stdout.decode(errors="replace")[-1500:])
        return
    exe = "/verif/target-sched/release/vsched"
    v = subprocess.run([exe, "--validate-mpsc", "4" if tier == "quick" else "5"], stdout=subprocess.PIPE, stderr=subprocess.PIPE)
    if v.returncode != 0:
        run.machinery.append("mpsc shim validation failed: " + v.stderr.decode(errors="replace")[-600:]); return
    run.validated += json.loads(v.stdout)["mpsc_sequences_validated"]
    configs = [(2, 2, 2), (3, 2, 2)] if tier == "quick" else [(2, 2, 3), (3, 2, 3), (3, 3, 2)]
    loom = []
    for k, n, b in configs:
        try:
            p = subprocess.run([exe, str(k), str(n), str(b)], stdout=subprocess.PIPE, stderr=subprocess.PIPE, timeout=900)
        except subprocess.TimeoutExpired:
            run.exhaustive = False; run.count("loom_wall_cap_hit"); continue
        err = p.stderr.decode(errors="replace")
        if p.returncode == 0:
            res = json.loads(p.stdout.decode().strip().splitlines()[-1])
            run.states += res["schedules"]; run.transitions += res["schedules"]
            run.validated += res["free_running_real_runs_validated"]
            for o in res["orders"]: run.observe(("loom-order", k, n, tuple(o)))
            loom.append({k2: v2 for k2, v2 in res.items() if k2 != "orders"})
        elif "SHIM-MISMATCH" in err:
            run.machinery.append(err[-800:])
        else:
            lines = [l for l in err.splitlines() if "panicked" in l or "assert" in l or "deadlock" in l.lower() or "yielded" in l or "exactly once" in l]
            what = (lines[1] if len(lines) > 1 else (lines[0] if lines else err[-300:])).strip()
            import re
            key = "loom:" + re.sub(r"[0-9]+", "N", what)[:120]
            run.violation(key, {"layer": "loom", "k": k, "instances": n, "preemption_bound": b, "what": what, "stderr_tail": err[-1200:],
                                "replay": f"/verif/target-sched/release/vsched {k} {n} {b}"})
    run.extra["loom"] = loom

def replay(path):
    a = json.load(open(path))["replay"]
    anthem = build_anthem()
    if a.get("layer") == "loom":
        r = subprocess.run(a["replay"].split(), stdout=subprocess.PIPE, stderr=subprocess.PIPE)
        print(r.stderr.decode(errors="replace")[-800:] or r.stdout.decode()[-400:]); sys.exit(0 if r.returncode == 0 else 1)
    if "k" not in a:
        print("replay: not a schedule artefact"); sys.exit(2)
    seen = []
    for _ in range(2):
        obs, choices = one_run(anthem, None, a["k"], a["instances"], a["outcomes"], a["schedule_choices"], a["decomposition"])
        seen.append(sorted(k for k, _ in judge(obs, a["k"], a["outcomes"])))
    print("replay k=%d n=%d outcomes=%s schedule=%s -> %s" % (a["k"], a["instances"], a["outcomes"], a["schedule_choices"], seen[0]))
    if seen[0] != seen[1]: print("replay: NON-DETERMINISTIC"); sys.exit(2)
    sys.exit(1 if seen[0] else 0)

def main():
    if "--replay" in sys.argv:
        replay(sys.argv[sys.argv.index("--replay") + 1])
    tier = tier_from_args()
    anthem = build_anthem()
    run = Run("C10", tier)
    run.rule = ("LAYER 2: real `anthem verify --equivalence strong` with a parking stand-in prover: for k problems (1-2 quick, 1-3 thorough), prover instances n, "
                "EVERY assignment of outcomes from the alphabet to the problems and EVERY order in which parked provers are released (DFS over release choices); "
                "oracle: Success iff all Theorem, exit 0, every problem handed over exactly once and byte-identical to its --save-problems file, one result block per problem; "
                "plus an external-equivalence task with a proof outline (two inductive lemmas, two lemmas; every single-failure assignment x every release order with at most 1 (thorough 2) deviations from the default order, n in {1,2}; every problem under a distinct name and saved byte-identically), plus the configuration without any vampire executable. LAYER 1: loom explores all interleavings (bounded preemptions) of the repository's own text of Prover::prove_all (build-time instrumented copy, loom port of threadpool 1.8.1, mpsc shim) with 2-3 workers and 2-3 problems of which one fails; oracle: iterator terminates, one result per problem, prove called once per problem, failures stay failures. non-trivial = distinct (outcome pattern, verdict, choice profile) and distinct completion orders")
    run.assumptions.append("loom layer: the mpsc shim is validated against std::sync::mpsc on every operation sequence up to the stated length; completion orders of 200 free-running runs of the real implementation must be among those loom produced")
    run.assumptions.append("outcomes the statement leaves open (Theorem together with a failing exit status or inside non-UTF8 noise) are not in the alphabet")
    run.assumptions.append("a schedule is the sequence of released problem names; each violating schedule is replayed twice and must reproduce")
    pool = ThreadPoolExecutor(max_workers=12)
    if tier == "quick":
        plan = [(1, 1, QUICK_OUTCOMES, "sequential"), (1, 1, NEAR_MISS_OUTCOMES, "sequential"), (2, 2, NEAR_MISS_OUTCOMES, "sequential"), (2, 1, QUICK_OUTCOMES, "sequential"), (2, 2, QUICK_OUTCOMES, "sequential"), (2, 2, ["Theorem", "Timeout", "Crash", "KilledBySignal"], "independent"),
                (3, 2, ["Theorem", "CounterSatisfiable"], "sequential"), (3, 3, ["Theorem", "NoStatusLine"], "independent")]
    else:
        allo = list(OUTCOMES.keys())
        plan = [(1, 1, allo, "sequential"), (1, 2, allo, "sequential"), (2, 1, allo, "sequential"), (2, 2, allo, "sequential"), (2, 2, allo, "independent"), (2, 8, QUICK_OUTCOMES, "sequential"),
                (3, 1, QUICK_OUTCOMES, "sequential"), (3, 2, QUICK_OUTCOMES, "sequential"), (3, 3, QUICK_OUTCOMES, "independent"), (3, 8, ["Theorem", "Timeout", "Crash", "NonUtf8Noise", "KilledBySignal"], "sequential")]
    for k, n, oc, dec in plan:
        if not STOP["set"]:
            explore(run, anthem, k, n, oc, dec, pool)
    if not STOP["set"]:
        outline_task(run, anthem, tier, pool)
    missing_executable(run, anthem)
    if not STOP["set"]:
        loom_layer(run, tier)
    run.extra["plan"] = [{"k": k, "instances": n, "outcomes": oc, "decomposition": dec} for k, n, oc, dec in plan]
    run.sample({"k": 2, "instances": 2, "outcomes": ["Theorem", "Crash"], "schedule_choices": [1], "meaning": "release the second parked prover first"})
    sys.exit(run.finish(merge_from=True if os.environ.get("C10_MERGE") else None))

if __name__ == "__main__":
    main()
