#!/usr/bin/env python3
"""C18, determinism half: every command on every corpus input is run once per hash seed of a
fixed seed list (the process's getrandom() is interposed, so std's RandomState keys - and with them
every HashMap/HashSet iteration order - are chosen by the harness and a failure reproduces on
every run) plus once free-running (own seeds, ASLR on); all outputs must be byte-identical."""
import os, sys, glob, shutil, subprocess, hashlib
from concurrent.futures import ThreadPoolExecutor
sys.path.insert(0, os.path.dirname(__file__))
from common import *

SMALL_PROGRAMS = [
    "p.", "p :- q.", "{p}.", ":- p, not q.", "p(X) :- q(X).", "p(X+1) :- q(X).", "p(1..3).", "{p(X)} :- q(X), not r(X).", "p(X/2) :- q(X).",
    "p(X) :- q(X), X = 1..5.", "p(a). p(b). q(X) :- p(X), X != a.", "r :- not r.", "p(X,Y) :- q(X), q(Y), X < Y.", "p(X) :- not not q(X).",
    "q(X) :- p(X). p(X) :- q(X).", "p(X\\3) :- q(X).", "p(-X) :- q(X).", "p(#inf). p(#sup).", "s(X,a,Y) :- t(Y,X).", "p(V1) :- q(V1), not q(V2), r(V2).",
    "p(Z) :- q(Z), q(Z1), Z != Z1.", "p(I) :- q(I), I = J, q(J).", "composite(I*J) :- I = 2..n, J = 2..n. prime(I) :- I = 2..n, not composite(I).",
    "in_cover(1..n). :- in_cover(I), in_cover(J), I != J, s(X,I), s(X,J).", "p(N0) :- q(N0). p(1..N1) :- q(N1).",
    # a theory of 12 / 24 formulas: anything that processes the formulas of a theory concurrently shows here
    " ".join(f"p{i}(X+{i}) :- q(X), X > {i}, not r{i}(X)." for i in range(1, 13)),
    " ".join(f"{{s{i}(X)}} :- q(X), X != {i}. t{i} :- s{i}(X), not not q(X+{i})." for i in range(1, 13)),
]

def main():
    tier = tier_from_args()
    anthem = build_anthem()
    run = Run("C18", tier)
    shim = build_seedshim()
    seeds = ([1, 2, 3] if tier == "quick" else list(range(1, 12))) if shim else []
    R = len(seeds) + (1 if shim else (2 if tier == "quick" else 5))
    run.rule = (f"determinism half: every command (parse x4 kinds, translate x5, simplify 3 portfolios x 3 strategies, analyze x2, verify --no-proof-search --save-problems for every line of the examples' .tests files) "
                f"on every corpus input (all example files + {len(SMALL_PROGRAMS)} small programs and their tau-star/gamma theories) is executed {R} times in fresh processes ({len(seeds)} with harness-chosen hash seeds, the rest free-running) and compared byte-wise (stdout, exit status, every saved problem file); and problem files written into a directory that already holds another task's files of the same names must equal those written into a fresh directory")
    if shim:
        run.assumptions.append(f"hash-map iteration order: the RandomState keys are owned by the harness (getrandom interposed through LD_PRELOAD, validated below on a probe); the seed list {seeds} is enumerated, not all 2^128 keys: an order dependence that shows for none of these seeds on none of the corpus inputs is missed. One additional free-running process per command (own keys, ASLR on) covers address-dependent orders as a sample. The input dimension is exhaustive over the corpus. The corpus contains theories of 12 and 24 formulas so that any concurrent processing of a theory's formulas before the prover stage would show; thread timing itself is not controlled by the harness, so in that dimension repeated runs are a sample (C10 controls the prover stage)")
    else:
        run.assumptions.append(f"no C compiler for the getrandom shim: the hash-seed dimension is covered by {R} fresh processes per input, i.e. sampled")
    base = scratch("c18_")
    jobs = []
    try:
        progs = sorted(glob.glob(f"{REPO}/res/examples/**/*.lp", recursive=True))
        for i, p in enumerate(SMALL_PROGRAMS):
            path = f"{base}/small_{i}.lp"; open(path, "w").write(p + "\n"); progs.append(path)
        if tier == "quick":
            progs = progs[::3] + progs[-8:]   # the last eight include the two large programs
        theories = []
        for i, p in enumerate(progs):
            for w in ("tau-star", "mu"):
                code, out, err = run_anthem(["translate", "--with", w, p])
                if code == 0 and i % 2 == 0:
                    t = f"{base}/theory_{i}_{w}.spec"; open(t, "wb").write(out); theories.append(t)
        specs = sorted(glob.glob(f"{REPO}/res/examples/**/*.spec", recursive=True)) + sorted(glob.glob(f"{REPO}/res/examples/**/*.po", recursive=True))
        ugs = sorted(glob.glob(f"{REPO}/res/examples/**/*.ug", recursive=True))
        for p in progs:
            jobs.append((["parse", "--as", "program", "--output", "default", p], None))
            jobs.append((["parse", "--as", "program", p], None))
            for w in ("tau-star", "natural", "mu"): jobs.append((["translate", "--with", w, p], None))
            for a in ("tightness", "regularity"): jobs.append((["analyze", "--property", a, p], None))
        for t in theories:
            jobs.append((["parse", "--as", "theory", "--output", "default", t], None))
            for w in ("gamma", "completion"): jobs.append((["translate", "--with", w, t], None))
            for pf in ("classic", "ht", "intuitionistic"):
                for st in ("shallow", "recursive", "fixpoint"):
                    jobs.append((["simplify", "--portfolio", pf, "--strategy", st, t], None))
        for s in specs: jobs.append((["parse", "--as", "specification", "--output", "default", s], None))
        for u in ugs: jobs.append((["parse", "--as", "user-guide", "--output", "default", u], None))
        # verify tasks from the examples' .tests files
        for tf in sorted(glob.glob(f"{REPO}/res/examples/**/.tests", recursive=True)):
            d = os.path.dirname(tf)
            lines = [l.split() for l in open(tf) if l.strip()]
            if tier == "quick": lines = lines[:2]
            for parts in lines:
                args = [a for a in parts[1:]]
                if "--no-proof-search" not in args: args.insert(1, "--no-proof-search")
                jobs.append((args, d))
        # external tasks whose user guide declares several predicates that no program mentions
        ext = [
            ("out(X) :- in(X).", "out(X) :- in(X), not not in(X).", "input: in/1. output: out/1. output: o2/1. output: o3/0. output: o4/2. output: o5/1. output: o6/3. input: i2/1. input: i3/0."),
            ("out(X) :- in(X), not aux(X). aux(X) :- in(X), X > 1.", "aux(X) :- in(X), X <= 1. out(X) :- aux(X).", "input: in/1. output: out/1. output: zz/1. output: yy/1. output: xx/1. output: ww/1."),
            ("p(a). p(b). p(c). p(d). q(X) :- p(X), X != e.", "p(d). p(c). p(b). p(a). q(X) :- p(X), X != f.", "output: p/1. output: q/1. output: r1/0. output: r2/0. output: r3/0. output: r4/0."),
        ]
        for i, (l, r, u) in enumerate(ext):
            d = f"{base}/ext_{i}"; os.mkdir(d)
            open(f"{d}/a.lp", "w").write(l + "\n"); open(f"{d}/b.lp", "w").write(r + "\n"); open(f"{d}/t.ug", "w").write(u + "\n")
            for flags in ([], ["--decomposition", "independent"], ["--no-simplify", "--no-eq-break"]):
                jobs.append((["verify", "--equivalence", "external", "--no-proof-search", "--save-problems", "$OUT"] + flags + ["a.lp", "b.lp", "t.ug"], d))
            jobs.append((["verify", "--equivalence", "strong", "--no-proof-search", "--save-problems", "$OUT", "a.lp", "b.lp"], d))
        # the emitted problem files must not depend on what an earlier run left in the output directory: write a
        # LARGER task's problems into a directory first, then the task itself, and compare with a fresh directory
        reuse_jobs = []
        for i in range(len(ext)):
            big = f"{base}/ext_{(i + 1) % len(ext)}"
            small = f"{base}/ext_{i}"
            for eq, files in (("external", ["a.lp", "b.lp", "t.ug"]), ("strong", ["a.lp", "b.lp"])):
                reuse_jobs.append((eq, files, big, small))
        run.extra["determinism_commands"] = len(jobs)
        def do(job):
            args, cwd = job
            outs = []
            for r in range(R):
                env = {"LD_PRELOAD": shim, "VERIF_HASH_SEED": str(seeds[r])} if r < len(seeds) else None
                a = list(args); out_dir = None
                if "$OUT" in a:
                    out_dir = scratch("c18o_"); a = [out_dir if x == "$OUT" else x for x in a]
                code, so, se = run_anthem(a, cwd=cwd, env=env, timeout=120)
                files = {}
                if out_dir:
                    for f in sorted(os.listdir(out_dir)): files[f] = hashlib.sha1(open(os.path.join(out_dir, f), "rb").read()).hexdigest()
                    shutil.rmtree(out_dir, ignore_errors=True)
                so_n = so.replace(out_dir.encode(), b"$OUT") if out_dir else so
                outs.append((code, hashlib.sha1(so_n).hexdigest(), tuple(sorted(files.items())), len(so)))
            return job, outs
        with ThreadPoolExecutor(max_workers=14) as pool:
            for job, outs in pool.map(do, jobs):
                run.states += 1; run.transitions += R
                args, cwd = job
                if any(o[0] is None for o in outs):
                    run.violation("timeout", {"args": args, "cwd": cwd, "what": "command did not terminate within 120 s"}); continue
                if any(o[0] == 101 for o in outs):
                    run.violation("panic_exit_status", {"args": args, "cwd": cwd})
                run.observe((outs[0][1], outs[0][2]))
                if len(set(outs)) != 1:
                    run.violation("nondeterministic_output|" + args[0], {"args": args, "cwd": cwd, "observations": [str(o) for o in outs]})
        for eq, files, big, small in reuse_jobs:
            def problems(dirs_in_order):
                out_dir = scratch("c18r_")
                try:
                    for d in dirs_in_order:
                        run_anthem(["verify", "--equivalence", eq, "--no-proof-search", "--save-problems", out_dir] + files, cwd=d, timeout=120)
                    names = sorted(os.listdir(out_dir))
                    return {f: hashlib.sha1(open(os.path.join(out_dir, f), "rb").read()).hexdigest() for f in names}
                finally:
                    shutil.rmtree(out_dir, ignore_errors=True)
            fresh = problems([small])
            reused = problems([big, small])
            run.states += 1; run.transitions += 3
            run.observe(("reuse", eq, tuple(sorted(fresh.items()))))
            diff = [f for f in fresh if reused.get(f) != fresh[f]]
            if diff:
                run.violation("output_depends_on_existing_files|verify", {"equivalence": eq, "first_task_dir": os.path.basename(big), "task_dir": os.path.basename(small),
                              "files_that_differ_from_a_fresh_directory": diff[:6], "what": "problem files written into a directory that already held (longer) files of the same names differ from those written into a fresh directory"})
        run.sample({"command": jobs[0][0], "repeats": R})
    finally:
        shutil.rmtree(base, ignore_errors=True)
    sys.exit(run.finish(merge_from=True))

if __name__ == "__main__":
    main()
