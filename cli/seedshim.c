/* LD_PRELOAD shim: makes the process's randomness (std's RandomState keys come from getrandom)
   a function of VERIF_HASH_SEED, so that hash-map iteration order is a choice the harness owns. */
#define _GNU_SOURCE
#include <stddef.h>
#include <stdlib.h>
#include <sys/types.h>
ssize_t getrandom(void *buf, size_t len, unsigned int flags) {
    (void)flags;
    const char *s = getenv("VERIF_HASH_SEED");
    unsigned long long x = s ? strtoull(s, 0, 10) : 0;
    x = x * 6364136223846793005ULL + 1442695040888963407ULL;
    unsigned char *p = buf;
    for (size_t i = 0; i < len; i++) { x ^= x << 13; x ^= x >> 7; x ^= x << 17; p[i] = (unsigned char)(x >> 24); }
    return (ssize_t)len;
}
