"""Shared helpers for the CLI-level explorers (C10, C16, C18, C20, C11)."""
import json, os, subprocess, sys, time, hashlib, shutil, tempfile

VERIF = "/verif"
# the registered checks always use /repo and /verif; the overrides exist only for the
# mutation-analysis lanes of tools/mutate.py, which work on scratch worktrees and must not
# overwrite the real evidence
REPO = os.environ.get("VERIF_REPO", "/repo")
TARGET = os.environ.get("VERIF_TARGET_REPO", "/verif/target-repo")
ANTHEM = f"{TARGET}/release/anthem"
OUT_ROOT = os.environ.get("VERIF_OUT", VERIF)

def build_anthem():
    """Builds the real anthem binary from /repo's current working tree (guard off)."""
    env = dict(os.environ, CARGO_NET_OFFLINE="true")
    r = subprocess.run(["cargo", "build", "--release", "--offline", "--manifest-path", f"{REPO}/Cargo.toml", "--target-dir", TARGET],
                       env=env, stdout=subprocess.PIPE, stderr=subprocess.STDOUT)
    if r.returncode != 0:
        sys.stderr.write("MACHINERY-ERROR: building anthem failed\n" + r.stdout.decode(errors="replace")[-3000:])
        sys.exit(2)
    return ANTHEM

def build_seedshim():
    """LD_PRELOAD library that makes getrandom() a function of VERIF_HASH_SEED (std's RandomState
    keys come from getrandom), so hash-map iteration order becomes a choice the harness owns.
    Returns the path, or None when no C compiler is usable."""
    so = f"{TARGET}/seedshim.so"
    os.makedirs(TARGET, exist_ok=True)
    for cc in ("cc", "gcc", "clang"):
        try:
            r = subprocess.run([cc, "-shared", "-fPIC", "-O1", "-o", so, f"{VERIF}/cli/seedshim.c"], stdout=subprocess.PIPE, stderr=subprocess.STDOUT)
            if r.returncode == 0: return so
        except FileNotFoundError:
            pass
    return None

def scratch(prefix):
    base = os.environ.get("VERIF_SCRATCH", "/verif/scratch")
    os.makedirs(base, exist_ok=True)
    return tempfile.mkdtemp(prefix=prefix, dir=base)

def load_known(pid):
    m = {}
    try:
        for line in open(f"{VERIF}/KNOWN_FINDINGS.txt"):
            line = line.strip()
            if line.startswith("known:"):
                rest = line[len("known:"):].strip()
                pre = f"property={pid} key="
                if rest.startswith(pre):
                    rest = rest[len(pre):]
                    if " :: " in rest:
                        k, d = rest.split(" :: ", 1)
                    else:
                        k, d = rest, ""
                    m[k.strip()] = d.strip()
    except FileNotFoundError:
        pass
    return m

class Run:
    def __init__(self, pid, tier, level="model_checking"):
        self.pid, self.tier, self.level = pid, tier, level
        self.seed = int(os.environ.get("VERIF_SEED", "0") or 0)
        self.t0 = time.time()
        self.states = 0; self.transitions = 0; self.validated = 0
        self.distinct = set(); self.samples = []; self.violations = []
        self.counters = {}; self.extra = {}; self.assumptions = []; self.rule = ""
        self.machinery = []; self.exhaustive = True
    def count(self, k, n=1): self.counters[k] = self.counters.get(k, 0) + n
    def observe(self, x): self.distinct.add(hashlib.sha1(repr(x).encode()).hexdigest()[:12])
    def sample(self, v):
        if len(self.samples) < 12: self.samples.append(v)
    def violation(self, key, replay): self.violations.append((key, replay))
    def finish(self, merge_from=None):
        known = load_known(self.pid)
        by = {}
        for k, r in self.violations: by.setdefault(k, []).append(r)
        known_seen = [(k, known[k], len(v)) for k, v in by.items() if k in known]
        unknown = sorted([(k, v) for k, v in by.items() if k not in known], key=lambda kv: (len(kv[0]), kv[0]))
        d = f"{OUT_ROOT}/replay/{self.pid}"
        os.makedirs(d, exist_ok=True)
        for f in os.listdir(d):
            if f.startswith("cli_"): os.remove(os.path.join(d, f))
        lines = []
        for k, desc, n in known_seen:
            lines.append(f"KNOWN-FINDING: property={self.pid} {desc} [{n} failing states; key={k}]")
        samples = list(self.samples)
        for i, (k, v) in enumerate(unknown[:20]):
            path = f"{d}/cli_{i}.json"
            json.dump({"property": self.pid, "key": k, "count": len(v), "replay": v[0]}, open(path, "w"), indent=1)
            lines.append(f"VIOLATION property={self.pid} replay={path}")
            samples.append({"violation_key": k, "count": len(v), "first": v[0]})
        for k, desc, n in known_seen:
            samples.append({"known_finding": desc, "key": k, "failing_states": n})
        if not samples: samples = ["(no samples recorded)"]
        cov = {"states": self.states, "transitions": self.transitions, "traces_validated_against_impl": self.validated,
               "evaluations": self.states, "distinct_nontrivial": len(self.distinct), "rule": self.rule, "samples": samples,
               "exhaustive": self.exhaustive, "known_findings_seen": len(known_seen), "failing_states_total": len(self.violations)}
        cov.update(self.counters); cov.update(self.extra)
        ev = {"property_id": self.pid, "tier": self.tier, "seed": self.seed, "level": self.level, "coverage": cov,
              "assumptions": self.assumptions, "wall_s": time.time() - self.t0, "violations": len(unknown), "machinery_errors": self.machinery}
        if merge_from is not None and not os.environ.get("VERIF_NO_MERGE"):
            # merge with the evidence written by the in-process engine for the same property
            try:
                old = json.load(open(f"{OUT_ROOT}/evidence/{self.pid}.json"))
                oc = old["coverage"]
                for k in ("states", "transitions", "traces_validated_against_impl", "evaluations", "distinct_nontrivial"):
                    cov[k] = cov.get(k, 0) + oc.get(k, 0)
                cov["rule"] = oc.get("rule", "") + " || CLI layer: " + self.rule
                cov["samples"] = oc.get("samples", []) + samples
                cov["in_process_layer"] = {k: v for k, v in oc.items() if k not in ("samples", "rule")}
                cov["exhaustive"] = bool(oc.get("exhaustive", True)) and self.exhaustive
                ev["assumptions"] = old.get("assumptions", []) + self.assumptions
                ev["wall_s"] = old.get("wall_s", 0) + ev["wall_s"]
                ev["violations"] = old.get("violations", 0) + len(unknown)
                ev["machinery_errors"] = old.get("machinery_errors", []) + self.machinery
                ev["level"] = old.get("level", self.level)
            except Exception as e:
                self.machinery.append(f"cannot merge evidence: {e}")
        os.makedirs(f"{OUT_ROOT}/evidence", exist_ok=True)
        json.dump(ev, open(f"{OUT_ROOT}/evidence/{self.pid}.json", "w"), indent=1)
        print(f"[{self.pid}/cli] tier={self.tier} states={self.states} transitions={self.transitions} validated={self.validated} distinct_nontrivial={len(self.distinct)} wall={time.time()-self.t0:.1f}s")
        for k, v in sorted(self.counters.items()): print(f"[{self.pid}/cli]   {k} = {v}")
        for l in lines: print(l)
        if self.machinery:
            for m in self.machinery: sys.stderr.write(f"MACHINERY-ERROR [{self.pid}]: {m}\n")
            return 2
        if len(self.distinct) < 2 and merge_from is None:
            sys.stderr.write(f"MACHINERY-ERROR [{self.pid}]: vacuous exploration\n"); return 2
        return 1 if unknown else 0

def tier_from_args():
    tier = os.environ.get("VERIF_TIER", "quick")
    a = sys.argv[1:]
    for i, x in enumerate(a):
        if x == "--tier" and i + 1 < len(a): tier = a[i + 1]
    return tier

def run_anthem(args, cwd=None, env=None, stdin=None, timeout=60):
    e = dict(os.environ)
    if env: e.update(env)
    try:
        r = subprocess.run([ANTHEM] + args, cwd=cwd, env=e, input=stdin, stdout=subprocess.PIPE, stderr=subprocess.PIPE, timeout=timeout)
        return r.returncode, r.stdout, r.stderr
    except subprocess.TimeoutExpired as ex:
        return None, ex.stdout or b"", ex.stderr or b""
