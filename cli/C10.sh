#!/bin/bash
# C10: layer 2 (controlled completion order on the real binary); layer 1 (loom) is added by sched/
cd /verif
exec python3 /verif/cli/c10_sched.py "$@"
