#!/bin/bash
# C16: in-process explorer, then the CLI layer
cd /verif
case " $* " in *" --replay "*)
  f=$(echo "$*" | sed 's/.*--replay *//; s/ .*//')
  case "$(basename "$f")" in cli_*) exec python3 /verif/cli/special.py C16 "$@";; *) exec /verif/target/release/vcheck C16 "$@";; esac;;
esac
/verif/target/release/vcheck C16 "$@"; a=$?
python3 /verif/cli/special.py C16 "$@"; b=$?
if [ $a -eq 2 ] || [ $b -eq 2 ]; then exit 2; fi
if [ $a -ne 0 ] || [ $b -ne 0 ]; then exit 1; fi
exit 0
