#!/bin/bash
cd /verif
exec python3 /verif/cli/c20_roles.py "$@"
