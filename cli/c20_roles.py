#!/usr/bin/env python3
"""C20: the role of each input file depends only on its extension and the argument order.

All permutations of the argument list, each file given directly or through a directory, for
strong and external equivalence; the emitted problem set must equal the one of the canonical
call computed by the reference rule. Swapping the two programs must swap exactly the roles of
axioms and conjectures between directions."""
import os, sys, itertools, shutil, subprocess, re, json
from concurrent.futures import ThreadPoolExecutor
sys.path.insert(0, os.path.dirname(__file__))
from common import *

FILES = {
    "m.lp": "out(X) :- in(X), X > 1.\n",
    "k.lp": "out(X) :- in(X), not in(X+1).\n",
    "z.lp": "out(X) :- in(X), X != a.\n",
    "B.lp": "out(X) :- in(X), X > 0.\n",
    "a.lp": "out(X) :- in(X), not not in(X).\n",
    "Z.ug": "input: in/1. output: out/1. assumption: forall X (in(X) -> X > 0).\n",
    "t.ug": "input: in/1. output: out/1.\n",
    "s.spec": "spec: forall X (out(X) <-> in(X) and X > 1).\n",
    "o.po": "lemma: forall X (out(X) -> in(X)).\n",
    "notes.txt": "this is not an input file\n",
    "README.md": "neither is this\n",
}

def problems_of(anthem, args, cwd):
    out = os.path.join(cwd, "_out")
    shutil.rmtree(out, ignore_errors=True); os.mkdir(out)
    r = subprocess.run([anthem, "verify", "--no-proof-search", "--save-problems", out] + args, cwd=cwd, stdout=subprocess.PIPE, stderr=subprocess.PIPE, timeout=60)
    res = {}
    for f in sorted(os.listdir(out)):
        res[f] = open(os.path.join(out, f)).read()
    shutil.rmtree(out, ignore_errors=True)
    return r.returncode, res, r.stderr.decode(errors="replace")[-300:]

def reference_roles(arglist, layout):
    """arglist: list of argument names (file names or directory names); layout: dir -> [files].
    Returns dict role -> file content key, per the documented rule."""
    ordered = []
    for a in arglist:
        if a in layout:
            for f in sorted(layout[a]):       # file-name order inside a directory
                ordered.append(f)
        else:
            ordered.append(a)
    lps = [f for f in ordered if f.endswith(".lp")]
    specs = [f for f in ordered if f.endswith(".spec")]
    ugs = [f for f in ordered if f.endswith(".ug")]
    pos = [f for f in ordered if f.endswith(".po")]
    # The property fixes the roles of the .lp files by argument order; it does not say WHICH of several
    # .spec / .ug / .po files is used, so every one of them is an admissible choice for the reference.
    return {"lps": lps, "spec": specs[0] if specs else None, "ug": ugs[0] if ugs else None, "po": pos[0] if pos else None,
            "specs": specs, "ugs": ugs, "pos": pos}

def canonical_candidates(equiv, roles):
    """all canonical calls that differ only in which of several same-extension non-.lp files is used"""
    out = []
    for sp in (roles.get("specs") or [None]):
        for ug in (roles.get("ugs") or [None]):
            for po in (roles.get("pos") or [None]):
                c = canonical_args(equiv, dict(roles, spec=sp, ug=ug, po=po))
                if c is not None and c not in out:
                    out.append(c)
    return out

def canonical_args(equiv, roles):
    if equiv == "strong":
        if len(roles["lps"]) < 2: return None
        return [roles["lps"][0], roles["lps"][1]]
    if roles["ug"] is None: return None
    if roles["spec"]:
        if not roles["lps"]: return None
        a = [roles["spec"], roles["lps"][0], roles["ug"]]
    else:
        if len(roles["lps"]) < 2: return None
        a = [roles["lps"][0], roles["lps"][1], roles["ug"]]
    if roles["po"]: a.append(roles["po"])
    return a

def strip_names(text):
    """problem body without preamble; formula names normalised"""
    lines = [l for l in text.splitlines() if l.startswith("tff(") and ", type," not in l and "_ax," not in l and not l.startswith("tff(symbol_order")]
    out = []
    for l in lines:
        m = re.match(r"tff\(([^,]+), (axiom|conjecture), (.*)\)\.$", l)
        if m: out.append((m.group(2), m.group(3)))
    return out

def replay(path):
    a = json.load(open(path))["replay"]
    anthem = build_anthem()
    if "arguments" not in a:
        print("replay: swap artefacts are re-run by the full check"); sys.exit(2)
    base = scratch("c20p_")
    try:
        layout = a["directories"]
        for arg in a["arguments"]:
            if arg in layout:
                os.mkdir(os.path.join(base, arg))
                for f in layout[arg]: open(os.path.join(base, arg, f), "w").write(FILES[f])
            else:
                open(os.path.join(base, arg), "w").write(FILES[arg])
        code, probs, err = problems_of(anthem, ["--equivalence", a["equivalence"]] + a["arguments"], base)
        roles = reference_roles(a["arguments"], layout)
        cargs = canonical_args(a["equivalence"], roles)
        d2 = scratch("c20q_")
        for f in cargs or []: open(os.path.join(d2, f), "w").write(FILES[f])
        ccode, cprobs, _ = problems_of(anthem, ["--equivalence", a["equivalence"]] + (cargs or []), d2)
        shutil.rmtree(d2, ignore_errors=True)
        same = (code == ccode and probs == cprobs)
        print("replay", a["equivalence"], a["arguments"], layout, "-> canonical", cargs, "identical" if same else "DIFFERENT")
        sys.exit(0 if same else 1)
    finally:
        shutil.rmtree(base, ignore_errors=True)

def main():
    if "--replay" in sys.argv:
        replay(sys.argv[sys.argv.index("--replay") + 1])
    tier = tier_from_args()
    anthem = build_anthem()
    run = Run("C20", tier)
    run.rule = ("file sets {2 .lp}, {3 .lp}, {2 .lp, .ug}, {.spec, 1-2 .lp, .ug}, {... + .po}, {... + notes.txt, README.md}, {mixed-case names B.lp, a.lp, Z.ug, t.ug}: ALL permutations of the argument list x each file given directly or via a "
                "directory (all groupings of up to two directories) for strong and external equivalence with --no-proof-search --save-problems; oracle: the emitted problem files equal those of the canonical "
                "call whose roles come from the reference rule (extension buckets; .lp in argument order, file-name order inside a directory; where several .spec/.ug/.po files are given the property does not say which one is used, so any of them is accepted); swapping the two programs of a strong task, and of an external task over two programs with distinct private predicates (without a proof outline, with an undirected lemma, and with a lemma given for both directions; the outline problems of the two directions are compared separately as well), maps forward onto "
                "backward with axioms and conjectures exchanged; non-trivial = distinct emitted problem sets")
    base = scratch("c20_")
    try:
        # all files live in one flat directory for direct use, and in sub-directories for directory use
        flat = os.path.join(base, "flat"); os.mkdir(flat)
        for f, c in FILES.items(): open(os.path.join(flat, f), "w").write(c)
        sets = [
            ("strong", ["m.lp", "k.lp"]), ("strong", ["m.lp", "k.lp", "z.lp"]), ("strong", ["m.lp", "k.lp", "notes.txt"]), ("strong", ["m.lp", "k.lp", "t.ug", "s.spec"]),
            ("external", ["m.lp", "k.lp", "t.ug"]), ("external", ["s.spec", "m.lp", "t.ug"]), ("external", ["s.spec", "m.lp", "k.lp", "t.ug"]),
            ("external", ["m.lp", "k.lp", "t.ug", "o.po"]), ("external", ["s.spec", "k.lp", "t.ug", "o.po", "notes.txt"]), ("external", ["m.lp", "k.lp", "z.lp", "t.ug", "README.md"]),
        ]
        mixed = [("strong", ["B.lp", "a.lp"]), ("external", ["B.lp", "a.lp", "t.ug"]), ("external", ["a.lp", "B.lp", "Z.ug", "t.ug"]), ("strong", ["B.lp", "a.lp", "m.lp"])]
        if tier == "quick":
            sets = [sets[0], sets[1], sets[3], sets[4], sets[6], sets[7]] + mixed[:3]
        else:
            sets = sets + mixed
        jobs = []
        cache = {}
        def canon(equiv, cargs):
            key = (equiv, tuple(cargs))
            if key not in cache:
                d = scratch("c20c_")
                try:
                    for f in cargs: shutil.copy(os.path.join(flat, f), os.path.join(d, f))
                    cache[key] = problems_of(anthem, ["--equivalence", equiv] + cargs, d)
                finally:
                    shutil.rmtree(d, ignore_errors=True)
            return cache[key]
        for equiv, files in sets:
            n = len(files)
            # groupings: each file is direct (0) or in directory d1 (1) or d2 (2)
            groupings = list(itertools.product([0, 1, 2], repeat=n)) if (n <= 3 or tier != "quick") else [g for i, g in enumerate(itertools.product([0, 1, 2], repeat=n)) if i % 5 == 0]
            for g in groupings:
                layout = {}
                for f, where in zip(files, g):
                    if where: layout.setdefault(f"d{where}", []).append(f)
                args_units = [f for f, where in zip(files, g) if where == 0] + sorted(layout.keys())
                for perm in itertools.permutations(args_units):
                    jobs.append((equiv, files, dict(layout), list(perm)))
        run.extra["configurations"] = len(jobs)
        def do(job):
            equiv, files, layout, perm = job
            d = scratch("c20r_")
            try:
                for a in perm:
                    if a in layout:
                        os.mkdir(os.path.join(d, a))
                        for f in layout[a]: shutil.copy(os.path.join(flat, f), os.path.join(d, a, f))
                    else:
                        shutil.copy(os.path.join(flat, a), os.path.join(d, a))
                code, probs, err = problems_of(anthem, ["--equivalence", equiv] + perm, d)
                roles = reference_roles(perm, layout)
                return job, code, probs, err, roles
            finally:
                shutil.rmtree(d, ignore_errors=True)
        with ThreadPoolExecutor(max_workers=14) as pool:
            for job, code, probs, err, roles in pool.map(do, jobs):
                equiv, files, layout, perm = job
                run.states += 1; run.transitions += max(1, len(probs))
                cands = canonical_candidates(equiv, roles)
                cargs = cands[0] if cands else None
                desc = {"equivalence": equiv, "arguments": perm, "directories": layout, "reference_roles": roles}
                if cargs is None:
                    if code == 0 and probs:
                        run.violation("problems_without_required_files", dict(desc, problems=sorted(probs)))
                    continue
                run.observe((equiv, tuple(sorted((k, hash(v)) for k, v in probs.items()))))
                matches = False
                for cand in cands:
                    ccode, cprobs, cerr = canon(equiv, cand)
                    if code == ccode and probs == cprobs:
                        matches = True
                        break
                if len(cands) > 1:
                    run.count("configurations_with_several_files_of_one_non_lp_extension")
                ccode, cprobs, cerr = canon(equiv, cargs)
                if not matches:
                    diff = [k for k in set(probs) | set(cprobs) if probs.get(k) != cprobs.get(k)]
                    run.violation("roles_differ_from_reference_rule", dict(desc, canonical_call=cargs, exit=code, canonical_exit=ccode, differing_problems=sorted(diff)[:6], stderr=err))
        # swap property for strong equivalence
        open(os.path.join(flat, "x.lp"), "w").write("out(X) :- in(X), X > 1. out(X) :- in(X), extra(X), X > 1.\n")
        for a, b in [("m.lp", "k.lp"), ("k.lp", "z.lp"), ("m.lp", "z.lp"), ("m.lp", "x.lp"), ("x.lp", "k.lp")]:
            for flags in [[], ["--decomposition", "independent"], ["--no-simplify"], ["--no-eq-break", "--formula-representation", "mu"]]:
                d = scratch("c20s_")
                try:
                    for f in (a, b): shutil.copy(os.path.join(flat, f), os.path.join(d, f))
                    _, p1, _ = problems_of(anthem, ["--equivalence", "strong"] + flags + [a, b], d)
                    _, p2, _ = problems_of(anthem, ["--equivalence", "strong"] + flags + [b, a], d)
                finally:
                    shutil.rmtree(d, ignore_errors=True)
                run.states += 1; run.transitions += len(p1) + len(p2)
                def fam(p, direction):
                    # union over the direction's problems of (role, formula) with sequentially added axioms counted once
                    ax, cj = set(), set()
                    for name, text in p.items():
                        if name.startswith(direction):
                            for role, body in strip_names(text):
                                (ax if role == "axiom" else cj).add(body)
                    return ax - cj, cj
                f1, b1 = fam(p1, "forward"), fam(p1, "backward")
                f2, b2 = fam(p2, "forward"), fam(p2, "backward")
                run.observe(("swap", a, b, tuple(flags), len(p1)))
                if f1 != b2 or b1 != f2 or not p1:
                    run.violation("swap_does_not_exchange_directions", {"programs": [a, b], "flags": flags, "forward_ab": [sorted(x)[:3] for x in f1], "backward_ba": [sorted(x)[:3] for x in b2]})
        # the same for external equivalence of two programs (distinct private predicates, so that the
        # renaming of clashing private predicates does not depend on the side)
        ext_pairs = [("big(X) :- in(X), X > 1. out(X) :- big(X).\n", "small(X) :- in(X), X <= 1. out(X) :- in(X), not small(X).\n"),
                     ("out(X) :- in(X), X > 1.\n", "small(X) :- in(X), X <= 1. out(X) :- in(X), not small(X).\n"),
                     ("big(X) :- in(X), X > 1. out(X) :- big(X).\n", "out(X) :- in(X), not in(X+1).\n")]
        UG2 = "input: in/1. output: out/1. output: q/1.\n"
        # one of the two programs never mentions the output predicate q/1
        ext_pairs += [("out(X) :- in(X).\n", "out(X) :- in(X). q(X) :- in(X), X > 1.\n", UG2),
                      ("out(X) :- in(X). q(1).\n", "out(X) :- in(X), not not in(X).\n", UG2)]
        # ... and with a proof outline whose lemmas carry no direction (or both): the outline problems of a
        # direction take their premises from that direction's side, so they are exchanged as well
        PO_VARIANTS = [None, "lemma: forall X (out(X) -> in(X)).\n",
                       "lemma(forward): forall X (out(X) -> in(X)).\nlemma(backward): forall X (out(X) -> in(X)).\n"]
        for pair in ext_pairs:
          for po in PO_VARIANTS:
            pa, pb = pair[0], pair[1]
            for flags in [[], ["--decomposition", "independent"], ["--no-simplify"], ["--no-eq-break"]]:
                d = scratch("c20x_")
                try:
                    open(os.path.join(d, "a.lp"), "w").write(pa); open(os.path.join(d, "b.lp"), "w").write(pb)
                    if len(pair) > 2:
                        open(os.path.join(d, "t.ug"), "w").write(pair[2])
                    else:
                        shutil.copy(os.path.join(flat, "t.ug"), os.path.join(d, "t.ug"))
                    extra = []
                    if po is not None:
                        open(os.path.join(d, "o.po"), "w").write(po); extra = ["o.po"]
                    _, p1, _ = problems_of(anthem, ["--equivalence", "external"] + flags + ["a.lp", "b.lp", "t.ug"] + extra, d)
                    _, p2, _ = problems_of(anthem, ["--equivalence", "external"] + flags + ["b.lp", "a.lp", "t.ug"] + extra, d)
                finally:
                    shutil.rmtree(d, ignore_errors=True)
                run.states += 1; run.transitions += len(p1) + len(p2)
                def fam(p, direction):
                    ax, cj = set(), set()
                    for name, text in p.items():
                        if name.startswith(direction):
                            for role, body in strip_names(text):
                                (ax if role == "axiom" else cj).add(body)
                    return ax - cj, cj
                run.observe(("swap-external", pa, pb, po, tuple(flags), len(p1)))
                families = [("forward", "backward")]
                if po is not None:
                    families.append(("forward_outline", "backward_outline"))
                    if not any(n.startswith("forward_outline") for n in p1) or not any(n.startswith("backward_outline") for n in p1):
                        run.violation("outline_problems_missing|external", {"programs": [pa, pb], "flags": flags, "outline": po, "problems": sorted(p1)})
                for fw, bw in families:
                    f1, b1 = fam(p1, fw), fam(p1, bw)
                    f2, b2 = fam(p2, fw), fam(p2, bw)
                    if f1 != b2 or b1 != f2 or not p1:
                        run.violation("swap_does_not_exchange_directions|external" + ("|outline" if fw != "forward" else ""), {"programs": [pa, pb], "flags": flags, "outline": po,
                                      "forward_ab_axioms_only_there": sorted(f1[0] - b2[0])[:3], "backward_ba_axioms_only_there": sorted(b2[0] - f1[0])[:3],
                                      "forward_ab_conjectures_only_there": sorted(f1[1] - b2[1])[:3], "backward_ba_conjectures_only_there": sorted(b2[1] - f1[1])[:3]})
        run.sample({"equivalence": "external", "arguments": ["d1", "t.ug"], "directories": {"d1": ["m.lp", "k.lp"]}, "meaning": "m.lp and k.lp given through directory d1: k.lp is the specification (file-name order), m.lp the program"})
    finally:
        shutil.rmtree(base, ignore_errors=True)
    sys.exit(run.finish())

if __name__ == "__main__":
    main()
