#!/bin/bash
# C18: termination/idempotence half (in-process explorer), then determinism half (fresh processes)
cd /verif
case " $* " in *" --replay "*) exec /verif/target/release/vcheck C18 "$@";; esac
/verif/target/release/vcheck C18 "$@"; a=$?
python3 /verif/cli/c18_determinism.py "$@"; b=$?
if [ $a -eq 2 ] || [ $b -eq 2 ]; then exit 2; fi
if [ $a -ne 0 ] || [ $b -ne 0 ]; then exit 1; fi
exit 0
