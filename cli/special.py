#!/usr/bin/env python3
"""CLI layers of C16 (special files / exit status for every command) and C11 (a refused task
exits non-zero and leaves the --save-problems directory empty)."""
import os, sys, shutil, itertools
from concurrent.futures import ThreadPoolExecutor
sys.path.insert(0, os.path.dirname(__file__))
from common import *

def c16(run, anthem, tier):
    base = scratch("c16_")
    try:
        specials = {
            "empty": b"", "blank": b"  \n\n", "comment": b"% only a comment\n", "comment_noeol": b"% no newline", "nonutf8": b"p(\xff\xfe).\n", "nul": b"p.\x00q.\n",
            "bom": b"\xef\xbb\xbfp.\n", "crlf": b"p :- q.\r\nq.\r\n", "bignum": b"p(99999999999999999999).\n", "minnum": b"p(-9223372036854775808).\n", "maxnum": b"p(9223372036854775807).\n",
            "deep": b"p(" + b"(" * 200 + b"1" + b")" * 200 + b").\n", "long": b"p(" + b"1+" * 500 + b"1).\n", "unbalanced": b"p((1).\n", "opsoup": b"p(1 + * / 2).\n",
            "theory_ok": b"forall X (p(X) -> q(X)).\n", "spec_ok": b"spec: forall X (p(X) -> q(X)).\n", "ug_ok": b"input: p/1. output: q/1.\n",
        }
        paths = {}
        for n, c in specials.items():
            for ext in ("lp", "spec", "ug", "po"):
                p = f"{base}/{n}.{ext}"; open(p, "wb").write(c); paths[(n, ext)] = p
        os.mkdir(f"{base}/adir.lp")
        paths[("directory", "lp")] = f"{base}/adir.lp"; paths[("missing", "lp")] = f"{base}/does_not_exist.lp"
        cmds = []
        for (n, ext), p in paths.items():
            if ext == "lp" or n in ("directory", "missing"):
                cmds += [["parse", "--as", "program", p], ["parse", "--as", "program", "--output", "default", p], ["analyze", "--property", "tightness", p], ["analyze", "--property", "regularity", p]]
                cmds += [["translate", "--with", w, p] for w in ("tau-star", "natural", "mu")]
                cmds += [["verify", "--equivalence", "strong", "--no-proof-search", p, paths[("theory_ok", "lp")]]]
            if ext == "spec":
                cmds += [["parse", "--as", "theory", p], ["parse", "--as", "specification", p], ["translate", "--with", "gamma", p], ["translate", "--with", "completion", p]]
                cmds += [["simplify", "--portfolio", pf, "--strategy", st, p] for pf in ("classic", "ht", "intuitionistic") for st in ("shallow", "fixpoint")]
                cmds += [["verify", "--equivalence", "external", "--no-proof-search", p, paths[("crlf", "lp")], paths[("ug_ok", "ug")]]]
            if ext == "ug":
                cmds += [["parse", "--as", "user-guide", p], ["verify", "--equivalence", "external", "--no-proof-search", paths[("crlf", "lp")], paths[("crlf", "lp")], p]]
            if ext == "po":
                cmds += [["verify", "--equivalence", "external", "--no-proof-search", paths[("crlf", "lp")], paths[("crlf", "lp")], paths[("ug_ok", "ug")], p]]
        # stdin variants
        for n in ("empty", "nonutf8", "bignum", "comment"):
            cmds.append((["parse", "--as", "program"], specials[n]))
            cmds.append((["translate", "--with", "tau-star"], specials[n]))
        cmds += [["verify", "--equivalence", "strong", "--no-proof-search"], ["verify", "--equivalence", "external", "--no-proof-search", paths[("crlf", "lp")]],
                 ["verify", "--equivalence", "strong", "--save-problems", f"{base}/no_such_dir", "--no-proof-search", paths[("crlf", "lp")], paths[("crlf", "lp")]]]
        run.extra["cli_commands"] = len(cmds)
        def do(c):
            if isinstance(c, tuple): args, stdin = c
            else: args, stdin = c, None
            code, so, se = run_anthem(args, stdin=stdin, timeout=60)
            return args, stdin is not None, code, so, se
        with ThreadPoolExecutor(max_workers=14) as pool:
            for args, has_stdin, code, so, se in pool.map(do, cmds):
                run.states += 1; run.transitions += 1
                short = [a.replace(base + "/", "") for a in args]
                run.observe((tuple(short[:3]), code))
                if code is None:
                    run.violation("cli_timeout|" + args[0], {"args": short, "what": "no termination within 60 s"}); continue
                txt = se.decode(errors="replace")
                if code == 101 or "panicked at" in txt or code < 0:
                    import re
                    m = re.search(r"panicked at ([^:]+):\d+:\d+:\s*\n?(.*)", txt)
                    where = m.group(1) if m else "?"
                    msg = re.sub(r"[0-9]+", "", (m.group(2) if m else txt[-200:]))[:90].strip()
                    run.violation(f"cli_panic|{where}|{msg}", {"args": short, "stdin": has_stdin, "exit": code, "stderr_tail": txt[-500:]})
                elif code != 0 and not txt.strip():
                    run.violation("cli_error_without_message", {"args": short, "exit": code})
    finally:
        shutil.rmtree(base, ignore_errors=True)

def c11(run, anthem, tier):
    base = scratch("c11_")
    try:
        ok_lp = "out(X) :- in(X).\n"; ug = "input: in/1. output: out/1.\n"
        refused = {
            "not_tight": ("out(X) :- in(X), out(X).\n", ok_lp, ug, []),
            "private_recursion": ("aux(X) :- in(X), not aux2(X). aux2(X) :- in(X), not aux(X). out(X) :- aux(X).\n", ok_lp, ug, []),
            "private_choice": ("{aux(X)} :- in(X). out(X) :- aux(X).\n", ok_lp, ug, []),
            "input_in_head": ("in(X) :- out(X). out(1).\n", ok_lp, ug, []),
            "io_overlap": (ok_lp, ok_lp, "input: in/1. output: out/1. output: in/1.\n", []),
            "assumption_output": (ok_lp, ok_lp, "input: in/1. output: out/1. assumption: forall X (in(X) -> out(X)).\n", []),
            "placeholder_two_sorts": (ok_lp, ok_lp, "input: in/1. output: out/1. input: n -> integer. input: n -> symbol.\n", []),
            "not_tight_right": (ok_lp, "out(X) :- in(X), out(X).\n", ug, []),
            "mu_unsupported": (ok_lp, ok_lp, ug, ["--formula-representation", "mu"]),
        }
        accepted = {"plain": (ok_lp, ok_lp, ug, []), "bypass": ("out(X) :- in(X), out(X).\n", ok_lp, ug, ["--bypass-tightness"])}
        for name, (l, r, u, flags) in list(refused.items()) + list(accepted.items()):
            d = f"{base}/{name}"; os.makedirs(f"{d}/out")
            open(f"{d}/a.lp", "w").write(l); open(f"{d}/b.lp", "w").write(r); open(f"{d}/t.ug", "w").write(u)
            for direction in ("universal", "forward", "backward"):
                code, so, se = run_anthem(["verify", "--equivalence", "external", "--no-proof-search", "--direction", direction, "--save-problems", f"{d}/out"] + flags + [f"{d}/a.lp", f"{d}/b.lp", f"{d}/t.ug"])
                files = os.listdir(f"{d}/out")
                run.states += 1; run.transitions += 1
                run.observe((name in refused, code == 0, bool(files)))
                if name in refused:
                    if code == 0 or files:
                        run.violation("refused_task_emits|" + name, {"case": name, "direction": direction, "exit": code, "files": sorted(files)[:5]})
                    elif not se.strip():
                        run.violation("refusal_without_message|" + name, {"case": name})
                else:
                    if code != 0 or not files:
                        run.count("accepted_case_refused")
                for f in files: os.remove(f"{d}/out/{f}")
        # analyze prints exactly true/false
        for prog, prop, want in [("p :- q. q :- p.\n", "tightness", "false"), ("p :- not q. q :- not p.\n", "tightness", "true"), ("p(X/2) :- q(X).\n", "regularity", "false"), ("p(X+1) :- q(X).\n", "regularity", "true")]:
            code, so, se = run_anthem(["analyze", "--property", prop], stdin=prog.encode())
            run.states += 1; run.transitions += 1
            if code != 0 or so.decode().strip() != want:
                run.violation("analyze_output|" + prop, {"program": prog, "property": prop, "stdout": so.decode(errors="replace"), "expected": want})
    finally:
        shutil.rmtree(base, ignore_errors=True)

def replay(path):
    import json
    a = json.load(open(path))["replay"]
    build_anthem()
    if "args" not in a:
        print("replay: re-run ./check for this artefact"); sys.exit(2)
    print("replay: this artefact names its files relative to a scratch directory that no longer exists; the full CLI layer re-creates them:", a["args"]); sys.exit(2)

def main():
    if "--replay" in sys.argv:
        replay(sys.argv[sys.argv.index("--replay") + 1])
    pid = sys.argv[1]
    sys.argv = [sys.argv[0]] + sys.argv[2:]
    tier = tier_from_args()
    anthem = build_anthem()
    run = Run(pid, tier)
    if pid == "C16":
        run.rule = "every command of the CLI on special files (empty, blank, comments only, non-UTF8 bytes, NUL, BOM, CRLF, numerals at and beyond the integer limits, 200-deep parentheses, 500-term sum (the pretty debug output of `parse` is quadratic in the nesting depth, so longer chains are slow without being hangs), unbalanced parentheses, operator soup, directory, missing file) as program / theory / specification / user guide / proof outline, from file and from stdin: terminates within 60 s, exit status is never 101 or a signal, stderr never contains 'panicked at', a failing run prints a message"
        c16(run, anthem, tier)
    else:
        run.rule = "9 refused task shapes x 3 directions through the real CLI with --save-problems: non-zero exit, an error message, and an empty output directory; analyze prints exactly true/false"
        c11(run, anthem, tier)
    sys.exit(run.finish(merge_from=True))

if __name__ == "__main__":
    main()
