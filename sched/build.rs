//! Build-time instrumentation: copies the REAL source of `Prover::prove_all`
//! (/repo/src/verifying/prover/mod.rs, current working tree) and of the `threadpool` crate
//! (registry source) and redirects their synchronisation primitives to loom-aware ones.
//! Every substitution must apply exactly once; otherwise the build fails (exit 2 upstream).
use std::{env, fs, path::PathBuf};

fn subst_once(src: &str, from: &str, to: &str, what: &str) -> String {
    let n = src.matches(from).count();
    if n != 1 {
        panic!("instrumentation anchor `{}` ({}) found {} times, expected exactly 1", from, what, n);
    }
    src.replacen(from, to, 1)
}

fn find_threadpool() -> PathBuf {
    let home = env::var("CARGO_HOME").unwrap_or_else(|_| format!("{}/.cargo", env::var("HOME").unwrap()));
    let src = PathBuf::from(home).join("registry/src");
    for reg in fs::read_dir(&src).expect("cargo registry src").flatten() {
        let p = reg.path().join("threadpool-1.8.1/src/lib.rs");
        if p.exists() {
            return p;
        }
    }
    panic!("threadpool-1.8.1 source not found in the cargo registry");
}

fn main() {
    let out = PathBuf::from(env::var("OUT_DIR").unwrap());
    // ---- prover/mod.rs
    let prover_path = "/repo/src/verifying/prover/mod.rs";
    println!("cargo:rerun-if-changed={prover_path}");
    let mut p = fs::read_to_string(prover_path).expect("read prover/mod.rs");
    p = subst_once(&p, "crate::verifying::problem::Problem", "anthem::verif::Problem", "Problem import");
    p = subst_once(&p, "sync::mpsc::channel,", "", "std mpsc channel import");
    p = subst_once(&p, "threadpool::ThreadPool,", "", "threadpool import");
    p = subst_once(&p, "pub mod vampire;", "use crate::mpsc::channel;\nuse crate::threadpool::ThreadPool;", "vampire submodule");
    fs::write(out.join("prover_mod.rs"), p).unwrap();
    // ---- threadpool
    let tp_path = find_threadpool();
    println!("cargo:rerun-if-changed={}", tp_path.display());
    let mut t = fs::read_to_string(&tp_path).unwrap();
    let cut = t.find("#[cfg(test)]").expect("threadpool test module");
    t.truncate(cut);
    // inner doc comments / attributes of the crate root cannot live in a submodule
    t = t
        .lines()
        .filter(|l| !l.starts_with("//!") && !l.starts_with("#![") && !l.trim_start().starts_with("///"))
        .collect::<Vec<_>>()
        .join("\n");
    t = subst_once(&t, "extern crate num_cpus;", "", "num_cpus crate");
    t = subst_once(&t, "use std::sync::atomic::{AtomicUsize, Ordering};", "use loom::sync::atomic::{AtomicUsize, Ordering};", "atomics");
    t = subst_once(&t, "use std::sync::mpsc::{channel, Receiver, Sender};", "use crate::mpsc::{channel, Receiver, Sender};", "mpsc");
    t = subst_once(&t, "use std::sync::{Arc, Condvar, Mutex};", "use loom::sync::{Arc, Condvar, Mutex};", "sync");
    t = subst_once(&t, "use std::thread;", "use loom::thread;", "thread");
    t = subst_once(&t, "thread::panicking()", "std::thread::panicking()", "panicking");
    t = subst_once(&t, "self.num_threads.unwrap_or_else(num_cpus::get)", "self.num_threads.unwrap_or(2)", "num_cpus default");
    t = subst_once(&t, "ThreadPool::new(num_cpus::get())", "ThreadPool::new(2)", "num_cpus default 2");
    fs::write(out.join("threadpool.rs"), t).unwrap();
}
