//! Unbounded multi-producer single-consumer channel on loom primitives with the semantics of
//! std::sync::mpsc that prove_all and threadpool rely on: FIFO, blocking recv, disconnection
//! when the last sender (or the receiver) is dropped, and the whole receiver surface
//! (recv, try_recv, iter, try_iter, into_iter).
use loom::sync::{Arc, Condvar, Mutex};
use std::collections::VecDeque;

struct State<T> {
    items: VecDeque<T>,
    senders: usize,
    receiver_alive: bool,
}
struct Shared<T> {
    state: Mutex<State<T>>,
    cv: Condvar,
}
pub struct Sender<T> {
    shared: Arc<Shared<T>>,
}
pub struct Receiver<T> {
    shared: Arc<Shared<T>>,
}
pub struct SendError<T>(pub T);
impl<T> std::fmt::Debug for SendError<T> {
    fn fmt(&self, f: &mut std::fmt::Formatter<'_>) -> std::fmt::Result {
        f.write_str("SendError { .. }")
    }
}
#[derive(Debug, PartialEq, Eq, Clone, Copy)]
pub struct RecvError;
#[derive(Debug, PartialEq, Eq, Clone, Copy)]
pub enum TryRecvError {
    Empty,
    Disconnected,
}

pub fn channel<T>() -> (Sender<T>, Receiver<T>) {
    let shared = Arc::new(Shared {
        state: Mutex::new(State { items: VecDeque::new(), senders: 1, receiver_alive: true }),
        cv: Condvar::new(),
    });
    (Sender { shared: shared.clone() }, Receiver { shared })
}

impl<T> Sender<T> {
    pub fn send(&self, t: T) -> Result<(), SendError<T>> {
        let mut s = self.shared.state.lock().unwrap();
        if !s.receiver_alive {
            return Err(SendError(t));
        }
        s.items.push_back(t);
        drop(s);
        self.shared.cv.notify_one();
        Ok(())
    }
}
impl<T> Clone for Sender<T> {
    fn clone(&self) -> Self {
        self.shared.state.lock().unwrap().senders += 1;
        Sender { shared: self.shared.clone() }
    }
}
impl<T> Drop for Sender<T> {
    fn drop(&mut self) {
        let mut s = self.shared.state.lock().unwrap();
        s.senders -= 1;
        let last = s.senders == 0;
        drop(s);
        if last {
            self.shared.cv.notify_all();
        }
    }
}
impl<T> Receiver<T> {
    pub fn recv(&self) -> Result<T, RecvError> {
        let mut s = self.shared.state.lock().unwrap();
        loop {
            if let Some(x) = s.items.pop_front() {
                return Ok(x);
            }
            if s.senders == 0 {
                return Err(RecvError);
            }
            s = self.shared.cv.wait(s).unwrap();
        }
    }
    pub fn try_recv(&self) -> Result<T, TryRecvError> {
        let mut s = self.shared.state.lock().unwrap();
        match s.items.pop_front() {
            Some(x) => Ok(x),
            None if s.senders == 0 => Err(TryRecvError::Disconnected),
            None => Err(TryRecvError::Empty),
        }
    }
    pub fn iter(&self) -> Iter<'_, T> {
        Iter { rx: self }
    }
    pub fn try_iter(&self) -> TryIter<'_, T> {
        TryIter { rx: self }
    }
}
impl<T> Drop for Receiver<T> {
    fn drop(&mut self) {
        let mut s = self.shared.state.lock().unwrap();
        s.receiver_alive = false;
        s.items.clear();
    }
}
pub struct Iter<'a, T> {
    rx: &'a Receiver<T>,
}
impl<'a, T> Iterator for Iter<'a, T> {
    type Item = T;
    fn next(&mut self) -> Option<T> {
        self.rx.recv().ok()
    }
}
pub struct TryIter<'a, T> {
    rx: &'a Receiver<T>,
}
impl<'a, T> Iterator for TryIter<'a, T> {
    type Item = T;
    fn next(&mut self) -> Option<T> {
        self.rx.try_recv().ok()
    }
}
pub struct IntoIter<T> {
    rx: Receiver<T>,
}
impl<T> Iterator for IntoIter<T> {
    type Item = T;
    fn next(&mut self) -> Option<T> {
        self.rx.recv().ok()
    }
}
impl<T> IntoIterator for Receiver<T> {
    type Item = T;
    type IntoIter = IntoIter<T>;
    fn into_iter(self) -> IntoIter<T> {
        IntoIter { rx: self }
    }
}
impl<'a, T> IntoIterator for &'a Receiver<T> {
    type Item = T;
    type IntoIter = Iter<'a, T>;
    fn into_iter(self) -> Iter<'a, T> {
        self.iter()
    }
}
