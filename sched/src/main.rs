//! C10 layer 1: loom exploration of the real text of `Prover::prove_all`.
#![allow(dead_code, unused_imports, bare_trait_objects, deprecated)]
mod mpsc;
mod threadpool {
    include!(concat!(env!("OUT_DIR"), "/threadpool.rs"));
}
mod prover {
    include!(concat!(env!("OUT_DIR"), "/prover_mod.rs"));
}

use anthem::verif::Problem;
use loom::sync::atomic::{AtomicUsize, Ordering};
use loom::sync::Arc;
use prover::{Prover, Report, Status, StatusExtractionError};
use std::fmt;

#[derive(Debug, Clone)]
struct StubReport {
    name: String,
}
impl fmt::Display for StubReport {
    fn fmt(&self, f: &mut fmt::Formatter<'_>) -> fmt::Result {
        write!(f, "{}", self.name)
    }
}
impl Report for StubReport {
    fn status(&self) -> Result<Status, StatusExtractionError> {
        "% SZS status Theorem for x".parse()
    }
}

#[derive(Debug, Clone)]
struct Stub {
    instances: usize,
    calls: Arc<AtomicUsize>,
}
impl Prover for Stub {
    type Report = StubReport;
    type Error = String;
    fn instances(&self) -> usize {
        self.instances
    }
    fn cores(&self) -> usize {
        1
    }
    fn prove(&self, problem: Problem) -> Result<StubReport, String> {
        self.calls.fetch_add(1, Ordering::SeqCst);
        // odd-numbered problems fail to start, as a prover that cannot be spawned would
        if problem.name.ends_with('1') {
            Err(format!("cannot start prover for {}", problem.name))
        } else {
            Ok(StubReport { name: problem.name })
        }
    }
}

// ---------------------------------------------------------------- validation of the shims

/// the same stub on the REAL anthem trait (std threadpool, std mpsc), free-running
#[derive(Debug, Clone)]
struct RealStub {
    instances: usize,
}
#[derive(Debug, Clone)]
struct RealReport {
    name: String,
}
impl fmt::Display for RealReport {
    fn fmt(&self, f: &mut fmt::Formatter<'_>) -> fmt::Result {
        write!(f, "{}", self.name)
    }
}
impl anthem::verif::Report for RealReport {
    fn status(&self) -> Result<anthem::verif::Status, anthem::verif::StatusExtractionError> {
        "% SZS status Theorem for x".parse()
    }
}
impl anthem::verif::Prover for RealStub {
    type Report = RealReport;
    type Error = String;
    fn instances(&self) -> usize {
        self.instances
    }
    fn cores(&self) -> usize {
        1
    }
    fn prove(&self, problem: Problem) -> Result<RealReport, String> {
        // a little real work so that completion orders vary
        let mut x = 0u64;
        for i in 0..(problem.name.len() as u64 * 1000 + (std::process::id() as u64 % 7) * 500) {
            x = x.wrapping_mul(31).wrapping_add(i);
        }
        std::hint::black_box(x);
        if problem.name.ends_with('1') {
            Err(format!("cannot start prover for {}", problem.name))
        } else {
            Ok(RealReport { name: problem.name })
        }
    }
}

#[derive(Clone, Copy, Debug)]
enum Op {
    Send,
    TryRecv,
    CloneSender,
    DropSender,
    RecvIfReady,
    DropReceiver,
}

/// every operation sequence of length <= n on the shim vs std::sync::mpsc (sequentially)
fn validate_mpsc(maxlen: usize) -> Result<usize, String> {
    let ops = [Op::Send, Op::TryRecv, Op::CloneSender, Op::DropSender, Op::RecvIfReady, Op::DropReceiver];
    let mut seqs: Vec<Vec<Op>> = vec![vec![]];
    let mut all: Vec<Vec<Op>> = vec![];
    for _ in 0..maxlen {
        let mut next = vec![];
        for s in &seqs {
            for o in ops {
                let mut x = s.clone();
                x.push(o);
                next.push(x);
            }
        }
        all.extend(next.iter().cloned());
        seqs = next;
    }
    let total = all.len();
    for seq in all {
        // std
        let std_trace = {
            let (tx, rx) = std::sync::mpsc::channel::<u32>();
            let mut txs = vec![tx];
            let mut rx = Some(rx);
            let mut trace = vec![];
            let mut n = 0u32;
            let mut queued = 0usize;
            for op in &seq {
                match op {
                    Op::Send => {
                        n += 1;
                        match txs.first() {
                            Some(t) => match t.send(n) {
                                Ok(()) => {
                                    queued += 1;
                                    trace.push(format!("send ok"))
                                }
                                Err(_) => trace.push("send err".into()),
                            },
                            None => trace.push("send -".into()),
                        }
                    }
                    Op::TryRecv => match &rx {
                        Some(r) => match r.try_recv() {
                            Ok(v) => {
                                queued -= 1;
                                trace.push(format!("try {v}"))
                            }
                            Err(std::sync::mpsc::TryRecvError::Empty) => trace.push("try empty".into()),
                            Err(std::sync::mpsc::TryRecvError::Disconnected) => trace.push("try disc".into()),
                        },
                        None => trace.push("try -".into()),
                    },
                    Op::CloneSender => {
                        if let Some(t) = txs.first().cloned() {
                            txs.push(t);
                        }
                        trace.push(format!("clone {}", txs.len()));
                    }
                    Op::DropSender => {
                        txs.pop();
                        trace.push(format!("drop {}", txs.len()));
                    }
                    Op::RecvIfReady => match &rx {
                        Some(r) if queued > 0 || txs.is_empty() => match r.recv() {
                            Ok(v) => {
                                queued -= 1;
                                trace.push(format!("recv {v}"))
                            }
                            Err(_) => trace.push("recv disc".into()),
                        },
                        _ => trace.push("recv -".into()),
                    },
                    Op::DropReceiver => {
                        rx = None;
                        queued = 0;
                        trace.push("droprx".into());
                    }
                }
            }
            trace
        };
        let seq2 = seq.clone();
        let shim_trace = std::sync::Arc::new(std::sync::Mutex::new(vec![]));
        let st2 = shim_trace.clone();
        loom::model(move || {
            let (tx, rx) = mpsc::channel::<u32>();
            let mut txs = vec![tx];
            let mut rx = Some(rx);
            let mut trace = vec![];
            let mut n = 0u32;
            let mut queued = 0usize;
            for op in &seq2 {
                match op {
                    Op::Send => {
                        n += 1;
                        match txs.first() {
                            Some(t) => match t.send(n) {
                                Ok(()) => {
                                    queued += 1;
                                    trace.push(format!("send ok"))
                                }
                                Err(_) => trace.push("send err".into()),
                            },
                            None => trace.push("send -".into()),
                        }
                    }
                    Op::TryRecv => match &rx {
                        Some(r) => match r.try_recv() {
                            Ok(v) => {
                                queued -= 1;
                                trace.push(format!("try {v}"))
                            }
                            Err(mpsc::TryRecvError::Empty) => trace.push("try empty".into()),
                            Err(mpsc::TryRecvError::Disconnected) => trace.push("try disc".into()),
                        },
                        None => trace.push("try -".into()),
                    },
                    Op::CloneSender => {
                        if let Some(t) = txs.first().cloned() {
                            txs.push(t);
                        }
                        trace.push(format!("clone {}", txs.len()));
                    }
                    Op::DropSender => {
                        txs.pop();
                        trace.push(format!("drop {}", txs.len()));
                    }
                    Op::RecvIfReady => match &rx {
                        Some(r) if queued > 0 || txs.is_empty() => match r.recv() {
                            Ok(v) => {
                                queued -= 1;
                                trace.push(format!("recv {v}"))
                            }
                            Err(_) => trace.push("recv disc".into()),
                        },
                        _ => trace.push("recv -".into()),
                    },
                    Op::DropReceiver => {
                        rx = None;
                        queued = 0;
                        trace.push("droprx".into());
                    }
                }
            }
            *st2.lock().unwrap() = trace;
        });
        let shim = shim_trace.lock().unwrap().clone();
        if shim != std_trace {
            return Err(format!("mpsc shim differs from std on {:?}: shim {:?} vs std {:?}", seq, shim, std_trace));
        }
    }
    Ok(total)
}

fn validate(k: usize, instances: usize, loom_orders: &[Vec<String>]) -> Result<usize, String> {
    use anthem::verif::Prover as RealProver;
    let mut seen = std::collections::BTreeSet::new();
    let reps = 200;
    for _ in 0..reps {
        let prover = RealStub { instances };
        let problems: Vec<Problem> = (0..k).map(|i| Problem::with_name(format!("problem_{i}"))).collect();
        let results: Vec<Result<RealReport, String>> = prover.prove_all(problems).collect();
        if results.len() != k {
            return Err(format!("real prove_all yielded {} results for {} problems", results.len(), k));
        }
        let order: Vec<String> = results
            .iter()
            .map(|r| match r {
                Ok(rep) => rep.name.clone(),
                Err(e) => e.rsplit(' ').next().unwrap().to_string(),
            })
            .collect();
        seen.insert(order);
    }
    for o in &seen {
        if !loom_orders.contains(o) {
            return Err(format!("the real implementation produced the completion order {:?}, which the loom model of k={} n={} never produced", o, k, instances));
        }
    }
    Ok(reps)
}

fn main() {
    let args: Vec<String> = std::env::args().collect();
    if args.get(1).map(|s| s.as_str()) == Some("--validate-mpsc") {
        let n: usize = args.get(2).and_then(|s| s.parse().ok()).unwrap_or(4);
        match validate_mpsc(n) {
            Ok(c) => println!("{}", serde_json::json!({"mpsc_sequences_validated": c})),
            Err(e) => {
                eprintln!("SHIM-MISMATCH: {e}");
                std::process::exit(2)
            }
        }
        return;
    }
    let k: usize = args.get(1).and_then(|s| s.parse().ok()).unwrap_or(3);
    let instances: usize = args.get(2).and_then(|s| s.parse().ok()).unwrap_or(2);
    let bound: usize = args.get(3).and_then(|s| s.parse().ok()).unwrap_or(2);
    let mut b = loom::model::Builder::new();
    b.preemption_bound = Some(bound);
    b.max_branches = 100_000;
    let iterations = std::sync::Arc::new(std::sync::atomic::AtomicUsize::new(0));
    let it2 = iterations.clone();
    let outcomes = std::sync::Arc::new(std::sync::Mutex::new(std::collections::BTreeSet::<Vec<String>>::new()));
    let oc2 = outcomes.clone();
    b.check(move || {
        it2.fetch_add(1, std::sync::atomic::Ordering::Relaxed);
        let calls = Arc::new(AtomicUsize::new(0));
        let prover = Stub { instances, calls: calls.clone() };
        let problems: Vec<Problem> = (0..k).map(|i| Problem::with_name(format!("problem_{i}"))).collect();
        let results: Vec<Result<StubReport, String>> = prover.prove_all(problems).collect();
        // oracle: the iterator terminated (we are here), one result per problem, each exactly once
        assert_eq!(results.len(), k, "prove_all yielded {} results for {} problems", results.len(), k);
        let mut names: Vec<String> = results
            .iter()
            .map(|r| match r {
                Ok(rep) => rep.name.clone(),
                Err(e) => e.rsplit(' ').next().unwrap().to_string(),
            })
            .collect();
        let order = names.clone();
        names.sort();
        let want: Vec<String> = (0..k).map(|i| format!("problem_{i}")).collect();
        assert_eq!(names, want, "results do not cover every problem exactly once");
        assert_eq!(calls.load(Ordering::SeqCst), k, "prove was not called exactly once per problem");
        for (i, r) in results.iter().enumerate() {
            let failed = order[i].ends_with('1');
            assert_eq!(r.is_err(), failed, "a failure was turned into a success or vice versa");
        }
        oc2.lock().unwrap().insert(order);
    });
    let n = iterations.load(std::sync::atomic::Ordering::Relaxed);
    let orders: Vec<Vec<String>> = outcomes.lock().unwrap().iter().cloned().collect();
    let free = match validate(k, instances, &orders) {
        Ok(c) => c,
        Err(e) => {
            eprintln!("SHIM-MISMATCH: {e}");
            std::process::exit(2)
        }
    };
    println!("{}", serde_json::json!({"k": k, "instances": instances, "preemption_bound": bound, "schedules": n, "distinct_completion_orders": orders.len(), "orders": orders, "free_running_real_runs_validated": free}));
}
